#!/usr/bin/env python3
"""Sensitivity run: apply hand-written mutants to /repo one at a time, run the listed quick checks, revert.
Usage: tools/sens.py [name-substring ...]   (results appended to /verif/sens_results.md)
Never leaves /repo modified (git checkout in a finally block)."""
import subprocess, sys, time, os
REPO='/repo'
M=[]
def m(name, file, old, new, expect):
    M.append((name, file, old, new, expect))

m("v-drops-mass", "src/sampling.rs", "(mass.ref_mul(mass) + shift.squared()) * x_e", "(mass.ref_mul(mass) * mass.zero() + shift.squared()) * x_e", ["C09","C10","C11","C02","C01"])
m("qt-inverse-transposed", "src/sampling.rs", "prefactor.ref_mul(&q_t_inverse[(l, l_prime)])", "prefactor.ref_mul(&q_t_inverse[(l_prime, l)])", ["C10","C01","C19"])
m("spanning-any-external", "src/preprocessing.rs", "self.external_vertices.iter().all(|&v| {", "self.external_vertices.iter().any(|&v| {", ["C03","C05","C07","C02"])
m("utrop-condition-inverted", "src/sampling.rs", "if tropical_subgraph_table.table[graph_without_edge.get_id()].loop_number\n            < tropical_subgraph_table.table[graph.get_id()].loop_number", "if tropical_subgraph_table.table[graph_without_edge.get_id()].loop_number\n            >= tropical_subgraph_table.table[graph.get_id()].loop_number", ["C07","C02","C11"])
m("spanning-omega-without-dod", "src/preprocessing.rs", "weight_sum - loop_number as f64 * dimension as f64 / 2.0 - tropical_graph.dod", "weight_sum - loop_number as f64 * dimension as f64 / 2.0", ["C03","C05"])
m("padding-dropped", "src/preprocessing.rs", "2 * num_edges - 1 + num_gaussian_variables + num_gaussian_variables % 2", "2 * num_edges - 1 + num_gaussian_variables", ["C03","C14"])
m("j-divides-by-omega-of-g", "src/preprocessing.rs", "/ table[g.id].generalized_dod.unwrap()", "/ table[subgraph_id.id].generalized_dod.unwrap()", ["C04"])
m("no-check-for-spanning-subsets", "src/preprocessing.rs", "if generalized_dod <= 0.0 && !subgraph.is_empty() && subgraph != full_subgraph_id {", "if generalized_dod <= 0.0 && !is_mass_momentum_spanning && !subgraph.is_empty() && subgraph != full_subgraph_id {", ["C05"])
m("edge-compare-before-add", "src/preprocessing.rs", "            cum_sum += &p_e;\n            if &cum_sum >= uniform {\n                return (edge, graph_without_edge);\n            }", "            if &cum_sum >= uniform && cum_sum > uniform.zero() {\n                return (edge, graph_without_edge);\n            }\n            cum_sum += &p_e;", ["C06","C07"])
m("l-matrix-asymmetric", "src/sampling.rs", "                    temp_l_matrix[(i, j)] += &add;\n                    temp_l_matrix[(j, i)] += &add;", "                    temp_l_matrix[(i, j)] += &add;", ["C08","C10"])
m("v-cross-term-factor", "src/sampling.rs", "res -= &(const_builder.from_isize(2)\n                * u_vectors[i].dot(&u_vectors[j])", "res -= &(const_builder.from_isize(1)\n                * u_vectors[i].dot(&u_vectors[j])", ["C09","C10","C01"])
m("shift-sign", "src/sampling.rs", "&(&acc + &q_part) - &u_part", "&(&acc + &q_part) + &u_part", ["C10","C01"])
m("jacobian-integer-division", "src/sampling.rs", ".powf(&const_builder.from_f64(tropical_subgraph_table.dimension as f64 / 2.0))\n        * (v_trop.ref_div(&v))", ".powf(&const_builder.from_f64((tropical_subgraph_table.dimension / 2) as f64))\n        * (v_trop.ref_div(&v))", ["C11","C01","C02"])
m("newton-step-sign", "src/gamma.rs", "        x_n -= h_n;", "        x_n += h_n;", ["C12"])
m("box-muller-swapped", "src/sampling.rs", "(theta.cos() * &r, theta.sin() * &r)", "(theta.sin() * &r, theta.cos() * &r)", ["C13"])
m("box-muller-same-coordinate", "src/sampling.rs", "            box_muller(rng.get_random_number(token), rng.get_random_number(token));", "            { let a = rng.get_random_number(token); let _b = rng.get_random_number(token); box_muller(a, a) };", ["C14","C13"])
m("nilpotent-series-truncated", "src/matrix.rs", "for _ in 1..max_non_zero_power_of_n {", "for _ in 2..max_non_zero_power_of_n {", ["C15","C10","C16"])
m("zero-det-check-removed", "src/matrix.rs", "if det_q == const_builder.zero() {", "if false && det_q == const_builder.zero() {", ["C16"])
m("extra-rng-draw", "src/lib.rs", ".take(num_vars)", ".take(num_vars + 1)", ["C17"])
m("metadata-changes-arithmetic", "src/sampling.rs", "    let metadata = if settings.return_metadata {", "    let jacobian = if settings.return_metadata { jacobian.ref_mul(&const_builder.one()) + const_builder.zero() * &lambda } else { jacobian * (const_builder.one() + const_builder.from_f64(f64::EPSILON)) };\n    let metadata = if settings.return_metadata {", ["C17"])
m("serde-skip-cached-factor", "src/preprocessing.rs", "    pub cached_factor: f64,\n}", "    #[serde(skip)]\n    pub cached_factor: f64,\n}", ["C18"])
m("f64-detour-in-cholesky", "src/matrix.rs", "let diagonal_entry = diagonal_entry_squared.sqrt();", "let diagonal_entry = diagonal_entry_squared.from_f64(diagonal_entry_squared.to_f64().sqrt());", ["C19"])
m("dot-folded-from-the-end", "src/vector.rs", "        self.elements\n            .iter()\n            .zip(rhs.elements.iter())\n            .fold(", "        self.elements\n            .iter()\n            .zip(rhs.elements.iter())\n            .rev()\n            .fold(", ["C20"])
m("sub-as-add", "src/vector.rs", "elements: array::from_fn(|i| self[i].ref_sub(&rhs[i])),", "elements: array::from_fn(|i| self[i].ref_add(&rhs[i])),", ["C20","C10"])
m("stability-fix-reverted", "src/matrix.rs", "if !(error <= error.from_f64(tolerance)) {", "if error > error.from_f64(tolerance) {", ["C16"])
m("gamma-fix-reverted", "src/gamma.rs", "if res.is_nan() || res.is_infinite() || res <= 0.0 {", "if res.is_nan() {", ["C12"])
m("edge-fix-reverted", "src/preprocessing.rs", "            if uniform <= &uniform.one() {\n                return last_edge;\n            }", "            if false && uniform <= &uniform.one() {\n                return last_edge;\n            }", ["C06"])
m("loop-number-ignores-selfloops", "src/preprocessing.rs", "        let num_vertices = vertices.len();\n        1 + num_edges - num_vertices", "        let num_vertices = vertices.len();\n        if num_edges == 1 { return 0; }\n        1 + num_edges - num_vertices", ["C03"])
m("lambda-uses-wrong-coordinate", "src/sampling.rs", "    let q_vectors = sample_q_vectors(&mut mimic_rng, tropical_subgraph_table.dimension, num_loops);", "    let q_vectors = sample_q_vectors(&mut mimic_rng, tropical_subgraph_table.dimension, num_loops);\n    let lambda = if num_loops > 2 { inverse_gamma_lr(&const_builder.from_f64(tropical_subgraph_table.tropical_graph.dod), &x_space_point[x_space_point.len() - 1], 50, &const_builder.from_f64(5.0)).map_err(SamplingError::GammaError)? } else { lambda };", ["C12","C14"])

def sh(cmd, **kw):
    return subprocess.run(cmd, shell=True, capture_output=True, text=True, **kw)

def main():
    sel = sys.argv[1:]
    out = open('/verif/sens_results.md','a')
    out.write(f"\n## sensitivity run {time.strftime('%Y-%m-%d %H:%M')}\n\n| mutant | check | exit | first line |\n|---|---|---|---|\n")
    assert sh(f"git -C {REPO} status --porcelain -- src").stdout.strip()=="", "repo not clean"
    for (name,file,old,new,expect) in M:
        if sel and not any(s in name for s in sel): continue
        path=os.path.join(REPO,file); src=open(path).read()
        if old not in src:
            out.write(f"| {name} | - | - | PATTERN NOT FOUND |\n"); out.flush(); print(name,"pattern not found"); continue
        try:
            open(path,'w').write(src.replace(old,new,1))
            for cid in expect:
                t0=time.time()
                r=sh(f"cd /verif && timeout 900 ./check {cid} quick")
                lines=[l for l in r.stdout.splitlines() if l.startswith(('VIOLATION','HARNESS-ERROR','violation detail'))]
                first=(lines[0][:160] if lines else r.stdout.strip().splitlines()[-1][:160] if r.stdout.strip() else r.stderr[-200:])
                out.write(f"| {name} | {cid} | {r.returncode} | {first.replace('|','/')} ({time.time()-t0:.0f}s) |\n"); out.flush()
                print(name,cid,r.returncode,first[:100])
        finally:
            sh(f"git -C {REPO} checkout -- src")
    out.close()
main()
