#!/usr/bin/env python3
"""Regenerates /verif/MANIFEST.json from the table below (kept in one place so it is always valid)."""
import json, os
ROOT = os.path.dirname(os.path.dirname(os.path.abspath(__file__)))
props = [json.loads(l) for l in open(os.path.join(ROOT, 'properties.jsonl'))]
# id -> (technique, level text, level note, design section)
CLAIMED = {}
def claim(i, technique, text, note, ref):
    CLAIMED[i] = (technique, text, note, ref)

exec(open(os.path.join(ROOT, 'tools', 'claims.py')).read())

checks = []
for p in props:
    i = p['id']
    if i not in CLAIMED:
        continue
    tech, text, note, ref = CLAIMED[i]
    checks.append({
        "property_id": i,
        "quick_cmd": f"./check {i} quick",
        "thorough_cmd": f"./check {i} thorough",
        "evidence_file": f"/verif/evidence/{i}.json",
        "replay_cmd_template": f"./check {i} --replay {{path}}",
        "engine": "mtverif",
        "level_claimed": {"category": "exploration", "text": text, "design_ref": ref},
        "level_note": note,
        "technique": tech,
    })
hooks = json.load(open(os.path.join(ROOT, 'tools', 'hooks.json')))
m = {
    "version": 1,
    "setup_cmd": "cd /verif/harness && CARGO_NET_OFFLINE=true cargo build --release --offline && cd /verif/harness_nolog && CARGO_NET_OFFLINE=true CARGO_TARGET_DIR=/verif/harness_nolog/target cargo build --release --offline",
    "hooks": hooks,
    "engines": [{"name": "mtverif", "path": "/verif/harness", "serves_properties": sorted(CLAIMED), "kind_free_text": "Rust binary: proptest TestRunner over a choice tape (16 shards), independent oracles (union-find, exact rationals, brute-force Symanzik polynomials, own incomplete gamma), taint and double-double scalars, libFuzzer targets in harness/fuzz for the thorough tier"}],
    "checks": checks,
    "not_applicable": [{"property_id": p['id'], "reason": "no check registered"} for p in props if p['id'] not in CLAIMED],
    "notes": "All checks: exit 0 = held, exit 1 + VIOLATION line = violated, exit 2 = harness/build problem or inconclusive. VERIF_SEED selects the proptest seed; every run is a pure function of (VERIF_SEED, tree). known_findings.json lists fixed/known findings.",
}
json.dump(m, open(os.path.join(ROOT, 'MANIFEST.json'), 'w'), indent=1)
print("claimed:", sorted(CLAIMED))
