#!/bin/bash
# apply each kept seeded change to /repo, run the given checks (default: the broken property's own check), undo.
# usage: tools/seeded_eval.sh [--all-checks] [ids...]
cd /verif
ALL=0; if [ "${1:-}" = "--all-checks" ]; then ALL=1; shift; fi
ids=${@:-$(ls seeded | grep '^C')}
[ -z "$(git -C /repo status --porcelain -- src)" ] || { echo "/repo not clean"; exit 1; }
for id in $ids; do
  git -C /repo apply /verif/seeded/$id/patch.diff || { echo "$id: patch does not apply"; continue; }
  if [ $ALL = 1 ]; then checks="C01 C02 C03 C04 C05 C06 C07 C08 C09 C10 C11 C12 C13 C14 C15 C16 C17 C18 C19 C20"; else checks=${id:0:3}; fi
  for c in $checks; do
    out=$(timeout 1200 ./check $c quick 2>&1); rc=$?
    line=$(echo "$out" | grep -E "violation detail" | head -1 | cut -c1-150)
    echo "| $id | $c | $rc | ${line:-$(echo "$out" | tail -1 | cut -c1-100)} |"
  done
  git -C /repo checkout -- .
done
