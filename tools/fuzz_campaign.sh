#!/bin/bash
# long libFuzzer campaigns over all targets (background exploration of the unchanged tree; not a registered check)
# usage: tools/fuzz_campaign.sh <seconds-per-target> [targets...]
HERE="$(cd "$(dirname "$0")/.." && pwd)"; cd "$HERE/harness"
secs=${1:-1200}; shift
targets=${@:-gamma_quantile graph_table edge_select matrix_decomp sampling}
export CARGO_NET_OFFLINE=true VERIF_ROOT="$HERE"
if [ -n "${VERIF_REPO:-}" ] && [ "$VERIF_REPO" != "/repo" ]; then sed -i "s|path = \"/repo\"|path = \"$VERIF_REPO\"|" Cargo.toml; fi
for t in $targets; do
  cargo +nightly fuzz build --fuzz-dir "$HERE/harness/fuzz" --target-dir "$HERE/harness/fuzz/target" $t >/dev/null 2>&1 || { echo "$t: build failed"; continue; }
  corpus="$HERE/harness/fuzz/corpus/campaign-$t"; art="$HERE/harness/fuzz/artifacts/campaign-$t"; mkdir -p "$corpus" "$art"
  len=2600; [ $t = gamma_quantile ] && len=192
  "$HERE/harness/fuzz/target/x86_64-unknown-linux-gnu/release/$t" "$corpus" -max_total_time=$secs -max_len=$len -len_control=0 -artifact_prefix="$art/" -fork=4 -ignore_crashes=1 -seed=${VERIF_SEED:-1} > "$art/log.txt" 2>&1
  echo "$t: $(grep -E '^#[0-9]+: cov' "$art/log.txt" | tail -1)"
  grep -h "FUZZ-VIOLATION" "$art/log.txt" | sort | uniq -c | sort -rn | head -5 | cut -c1-400
  ls "$art" | grep -c crash- | sed "s/^/$t crash files: /"
done
