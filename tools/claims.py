PBT = "property-based testing (proptest TestRunner over a choice tape, 16 shards, shrinking to a replay file)"
claim("C01", PBT + " of a statistical oracle: Monte Carlo means against closed-form integrals and the universal identity E[jac*h*prod A^nu]=1, two-stage z-test; plus a deterministic metamorphic scaling relation",
      "Generated graphs/kinematics/routings; each case is a 4e5-point (thorough 4e6) Monte Carlo run whose mean must equal an independently known value. Exploration with a statistical decision rule is the only way to attack an aggregate statement about the whole hypercube; every factor of the composition is pinned deterministically by C02-C14.",
      "Statistical: false-alarm < 1e-10 per case, power ~0.5-1 % relative bias; D*L<=8 and all omega>=0.3 to keep variances finite; closed forms re-derived at design time.", "DESIGN.md §5 C01")
claim("C02", PBT + " against brute-force Symanzik constants (N_T, c_min, C_sum) with corner-heavy structured points",
      "For thousands of generated graphs and corner/rare-sector points the returned u, v and jacobian/normalisation are checked against bounds computed by enumerating spanning trees and 2-forests. Exploration with a sound oracle; bounds hold with equality at corners so any mis-tracked tropical factor shows up.",
      "Feynman parameters observed through the crate's debug log (itself checked by C07); tolerance condition-scaled; domain kappa*c_V<=1e8 as in the property.", "DESIGN.md §5 C02")
claim("C03", PBT + " against a union-find / exact-rational reference model of every table entry; stateful stages: families of sibling graphs and soak histories (10^5 builds of a small pool on one thread) checked against the same model",
      "Arbitrary multigraphs; every one of the 2^E subsets of every accepted graph compared with an independent reference (cyclomatic number, spanning flag, exact omega) plus reported dod/dimension/edge data.",
      "Trusts the reference model (written from the property statement), num::BigRational, serde_json as the window onto the table. E<=7 (quick) / E<=10 (thorough).", "DESIGN.md §5 C03")
claim("C04", PBT + " with exact rational arithmetic: local recursion on the table's values, omegas tied to the exact reference, recomputation from omegas, E!-ordering sum, own Gamma for the normalisation; families of sibling graphs built on one thread",
      "Every subset of every accepted generated graph satisfies the J recursion exactly (rationals), J(full) equals the ordering sum, probabilities sum to one, cached_factor equals the closed formula.",
      "Own ln Gamma accurate to 1e-14; E<=7 for the ordering sum (8 in thorough).", "DESIGN.md §5 C04")
claim("C05", PBT + " with boundary-pushed weights, exact rational omega oracle for the iff, catch_unwind for panics, repeated and cross-process builds for determinism, families of sibling graphs and soak histories on one thread",
      "Accept/reject decision of build_sampler compared with the exact classification for tens of thousands of graphs incl. ones whose deciding omega sits at +-1/64, +-1e-6; J finite/positive on acceptance; no panic; byte-identical tables across builds and processes.",
      "Subsets with |omega|<=1e-9 excluded from the iff as the property says; hash-seed variation sampled, not enumerated.", "DESIGN.md §5 C05")
claim("C06", PBT + " with a boundary-heavy generator for the edge-choice coordinates and an exact-rational cumulative-sum oracle applied at every step of the walk; second decider: the sampler run with an exact rational user scalar, edge-choice coordinate exactly on / 2^-e beside a cumulative boundary, decided without tolerance",
      "Every removal step of every generated walk is compared with the exact inverse-CDF choice; u within ulps of boundaries and of 1, 0, subnormals are generated on purpose; any panic is a violation. Found the genuine u=1-2^-53 panic (fixed).",
      "Removal order observed through the debug log with xi=2^-omega; 64*E*eps neighbourhood accepts both neighbours; reference J by own recursion.", "DESIGN.md §5 C06")
claim("C07", PBT + " against an oracle-side simulation of the sector walk and brute-force tropical polynomials",
      "Logged unrescaled parameters equal the predicted products xi^(1/omega); logged tropical values equal the largest monomials; rescaling is common and normalises U_tr^(D/2)V_tr^dod to 1.",
      "Debug log as observation channel; points within 1e-9 of a boundary excluded as the property says; condition-scaled tolerance of the power function.", "DESIGN.md §5 C07")
claim("C08", PBT + " against exact rational determinant and brute-force spanning-tree sum, with unimodular scrambling of the cycle basis",
      "Metadata L matrix checked entrywise, u checked against two independent oracles within 1000*eps*kappa for thousands of graphs x routings x points.",
      "kappa computed exactly; parameters from the debug log (checked by C07).", "DESIGN.md §5 C08")
claim("C09", PBT + " against brute-force spanning 2-forests, plus a metamorphic relation between two generated routings of the same kinematics",
      "v equals F/U from an independent enumeration; u, v, jacobian agree between two routings (different tree, basis change, flips, offsets).",
      "Tolerance 1000*eps*kappa*c_V, both computed exactly.", "DESIGN.md §5 C09")
claim("C10", PBT + " with the momentum-map identities evaluated in exact rational arithmetic on the returned numbers, under the metadata/debug settings and again under the default settings, incl. edge data contradicting the mass flags",
      "Scalar identity, vector identity with the metadata Cholesky factor, factor product = L, shift = L^-1 u, for thousands of generated samples incl. Box-Muller/lambda tails.",
      "Domain restricted to points whose gamma quantile is >= 1e-13 (where C12 guarantees lambda) and to the oracle's magnitude range.", "DESIGN.md §5 C10")
claim("C11", PBT + " against an independent evaluation of the whole weight formula at the unrescaled parameters",
      "jacobian equals cached_factor*u^(-D/2)*v^(-dod) and equals I_tr Gamma(dod)/prod Gamma pi^(DL/2)(U_tr/U)^(D/2)(V_tr/V)^dod computed from own J, own Gamma and brute-force polynomials: invariance under the rescaling.",
      "Own ln Gamma; debug log for the unrescaled parameters.", "DESIGN.md §5 C11")
claim("C12", PBT + " with branch-aware generators against own incomplete-gamma functions; link to sampling by bit-equality; libFuzzer campaign in the thorough tier",
      "Millions of (a,p) incl. every reachable starting-value branch, branch thresholds, p within 2^-53 of 0 and 1, a within 1e-8 of 1: result is Err or finite>0, accurate to 2e-8 where required, monotone, never panics; the lambda of a sample is exactly this function. Found two genuine defects (fixed).",
      "Own P/Q accurate to ~1e-13; required domain p>=P(a,1e-13).", "DESIGN.md §5 C12")
claim("C13", PBT + " against a reference Box-Muller on the designated coordinates",
      "Every Gaussian component of every generated sample equals the transform of its own coordinate pair (layout, cos/sin order, odd D*L).",
      "Tolerance 2e-14*r for the rounding of 2*pi*b.", "DESIGN.md §5 C13")
claim("C14", PBT + " with dynamic dependency (taint) tracking through a user-supplied scalar type, plus value-level perturbations and role checks in plain f64 with print_debug_info off and on",
      "Per execution: exact dependency sets of L, u, v, jacobian, lambda, each Gaussian component; coverage of all coordinates; trailing coordinates untouched; short points rejected.",
      "Dependency sets are syntactic upper bounds; complemented by perturbation runs.", "DESIGN.md §5 C14")
claim("C15", PBT + " against exact rational linear algebra (determinant, inverse, factor products), every matrix under four settings (stability test off/on x debug off/on)",
      "SPD matrices n=1..8 of six structural classes up to cond 1e10: factor shape, R^T R, R^-1 R, determinant, inverse within 1000*eps*cond.",
      "Exact Gauss-Jordan over BigRational as reference.", "DESIGN.md §5 C15")
claim("C16", PBT + " over all symmetric matrices and over samples with the stability test enabled; exact recomputation of the stability residual; third decider: the generic routine run with an exact-ring user scalar (coarse sqrt and division) and tolerances 0.5..1.001 times the exactly known distance",
      "Ok never carries a zero determinant; exactly singular (exact-arithmetic) matrices give ZeroDet; with Some(tol) an Ok result is NaN-free and its exact L_2,1 residual is <= tol (+rounding slack), both for decompose_for_tropical and through samples. Found the genuine NaN-passes-the-test defect (fixed).",
      "Rounding slack of the f64 residual evaluation is added to tol.", "DESIGN.md §5 C16")
claim("C17", "model-based / stateful " + PBT + ": histories of sample / rng-sample / clone / serde-copy / thread-burst / constant-point-on-two-samplers / tolerance-threshold operations checked against a first-observation model; cross-process comparison",
      "Bit-equality of every observation with the model across histories, flag combinations, 2-8 concurrent threads and a fresh process; rng equivalence and exact draw count.",
      "Thread schedules sampled, not enumerated; absence of interior mutability reported by a source scan (supplementary).", "DESIGN.md §5 C17")
claim("C18", PBT + " of a round-trip oracle in three wire formats (serde_json text, value tree, a positional non-self-describing format written for the harness), compared through f64 and double-double sampling",
      "Restored samplers re-serialise byte-identically, report the same quantities and sample bit-identically (incl. metadata) on 13 generated points each.",
      "serde_json text (float_roundtrip) and its value tree as formats; sampling equality on generated points, not all points.", "DESIGN.md §5 C18")
claim("C19", PBT + " with two user scalar types: taint tracking of every to_f64/from_f64, and a double-double type whose outputs are checked with exact rationals at 1e-26*kappa, incl. edge choices placed 1e-20..1e-27 beside an exact cumulative boundary",
      "No value depending on anything but the gamma coordinate is ever narrowed; a 106-bit scalar yields 1e-31-accurate u, inverse, momenta, routing-independent v and jacobian.",
      "Double-double library validated at design time; tolerance 1e-26*kappa.", "DESIGN.md §5 C19")
claim("C20", PBT + " against plain-array IEEE reference, compared by bit pattern",
      "Hundreds of thousands of vectors of dimension 1..8 with components from all finite f64; every Vector operation and every f64 MomTropFloat method.",
      "Host IEEE arithmetic as reference for single operations.", "DESIGN.md §5 C20")
