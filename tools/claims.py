claim("C03", "property-based testing (proptest over a choice tape) against a union-find/exact-rational reference model of every table entry",
      "Generated-input search: thousands of arbitrary multigraphs per run, every one of the 2^E subsets of every accepted graph compared with an independent reference (cyclomatic number, spanning flag, exact omega) plus the reported dod/dimension/edge data. Exploration is the right level: the domain is infinite, the oracle is exact, failures shrink to a minimal graph.",
      "Trusts the reference model (written from the property statement), num::BigRational, serde_json as the window onto the table. Graphs with E<=7 (quick) / E<=10 (thorough), V<=6.",
      "DESIGN.md §5 C03")
