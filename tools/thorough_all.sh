#!/bin/bash
# run every thorough check once, report exit codes and wall time (used through `vp run` on a snapshot)
HERE="$(cd "$(dirname "$0")/.." && pwd)"; cd "$HERE"
ids=${@:-C20 C12 C13 C18 C19 C02 C07 C08 C09 C10 C11 C14 C16 C06 C15 C03 C05 C04 C17 C01}
for id in $ids; do
  t0=$(date +%s)
  out=$(./check $id thorough 2>&1); rc=$?
  echo "$id thorough exit=$rc wall=$(( $(date +%s) - t0 ))s :: $(echo "$out" | tail -1 | cut -c1-200)"
  if [ $rc -ne 0 ]; then echo "$out" | grep -E "violation detail|VIOLATION|HARNESS" | cut -c1-1500; fi
  grep -o '"fuzz": {[^}]*}' evidence/$id.json 2>/dev/null
done
