#!/bin/bash
# run every quick check under many VERIF_SEEDs; print only the runs that do not exit 0
# usage: tools/seedsweep.sh <first-seed> <last-seed> [ids...]
HERE="$(cd "$(dirname "$0")/.." && pwd)"; cd "$HERE"
a=${1:-1}; b=${2:-10}; shift 2
ids=${@:-C01 C02 C03 C04 C05 C06 C07 C08 C09 C10 C11 C12 C13 C14 C15 C16 C17 C18 C19 C20}
bad=0
for s in $(seq $a $b); do
  for id in $ids; do
    out=$(VERIF_SEED=$s ./check $id quick 2>&1); rc=$?
    if [ $rc -ne 0 ]; then bad=$((bad+1)); echo "SEED=$s $id exit=$rc"; echo "$out" | grep -E "violation detail|VIOLATION|HARNESS" | cut -c1-1200; fi
  done
  echo "seed $s done (non-zero so far: $bad)"
done
echo "sweep finished: $bad non-zero exits"
