#![no_main]
use libfuzzer_sys::fuzz_target;
// bytes -> choice tape -> one sampling case (graph, two routings, kinematics, point) -> the oracles of C09, C07, C08, C10, C11, C02
fuzz_target!(|data: &[u8]| {
    mtverif::props::fuzzrun::fuzz_entry("sampling", data);
});
