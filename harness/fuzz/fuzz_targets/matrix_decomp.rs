#![no_main]
use libfuzzer_sys::fuzz_target;
// bytes -> choice tape -> the same generator and the same oracle as the proptest check of C15
fuzz_target!(|data: &[u8]| {
    mtverif::props::fuzzrun::fuzz_entry("matrix_decomp", data);
});
