use mtverif::engine::{self, Tier};
use mtverif::props;

fn usage() -> ! {
    eprintln!("usage: mtverif <ID> <quick|thorough>   |   mtverif <ID> --replay <file>");
    std::process::exit(2)
}

fn main() {
    let args: Vec<String> = std::env::args().collect();
    if args.len() < 3 {
        usage();
    }
    engine::install_panic_hook();
    engine::capture_stdout();
    if args[1] == "--child" {
        std::process::exit(props::xproc::child_main(&args[2]));
    }
    if args[1] == "--fuzz-artifact" {
        // mtverif --fuzz-artifact <target> <file>: decode a libFuzzer input through the tape and run the oracle on it
        if args.len() < 4 {
            usage();
        }
        let data = std::fs::read(&args[3]).expect("artifact");
        match props::fuzzrun::run_target(&args[2], &data) {
            Some((f, case)) => {
                engine::say(&format!("{} — {}\ncase: {}", f.signature, f.message, case));
                std::process::exit(1)
            }
            None => {
                engine::say("no violation on this input");
                std::process::exit(0)
            }
        }
    }
    if args[1] == "--genstats" {
        mtverif::gen::genstats();
        return;
    }
    let id = args[1].to_uppercase();
    let code = if args[2] == "--replay" {
        if args.len() < 4 {
            usage();
        }
        props::replay(&id, &args[3])
    } else {
        let tier = match args[2].as_str() {
            "quick" => Tier::Quick,
            "thorough" => Tier::Thorough,
            _ => usage(),
        };
        props::run(&id, tier, engine::seed_from_env())
    };
    std::process::exit(code)
}
