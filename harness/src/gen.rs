//! Shared generators. Every choice is read from the `Tape` (owned by proptest or by a fuzzer),
//! inputs are *constructed* to be sound (cycle bases, momentum conservation, accepted graphs).
use crate::engine::{Tape, Tier};
use crate::oracle::graph::{find, G};
use serde::{Deserialize, Serialize};

// ------------------------------------------------------------------ small helpers
/// move a non-negative finite float by n ulps (n may be negative); clamps at 0
pub fn ulp_step(x: f64, n: i64) -> f64 {
    debug_assert!(x >= 0.0 && x.is_finite());
    let b = x.to_bits() as i64 + n;
    if b < 0 {
        0.0
    } else {
        f64::from_bits(b as u64)
    }
}
pub const ONE_M: f64 = 1.0 - 1.1102230246251565e-16; // 1 - 2^-53
pub const TWO_M53: f64 = 1.1102230246251565e-16;

pub fn shuffle<T>(t: &mut Tape, v: &mut [T]) {
    for i in (1..v.len()).rev() {
        let j = t.below(i + 1);
        v.swap(i, j);
    }
}

/// denominator of the weight grid of one graph: dyadic grids (sums exact in f64) or decimal-like grids whose
/// sums are inexact and frequently land one ulp away from integers / half-integers
fn pick_den(dyadic: bool, t: &mut Tape) -> f64 {
    if dyadic {
        // integer and half-integer propagator powers are what users actually pass: keep them frequent
        if t.chance(0.25) {
            2.0
        } else {
            64.0
        }
    } else {
        *t.pick(&[10.0, 100.0, 10.0, 20.0, 14.0, 30.0, 3.0, 6.0, 7.0, 5.0])
    }
}
fn quantise(w: f64, den: f64) -> f64 {
    (w * den).round().max(1.0) / den
}

/// draw weights so that the *reference* accepts the graph (all proper omegas > min_omega, dod > min_dod);
/// returns false if no attempt succeeded (weights of the last attempt are left in place)
pub fn fit_weights(t: &mut Tape, g: &mut G, dyadic: bool, min_omega: f64, need_pos_dod: bool, attempts: usize) -> bool {
    let ne = g.nedges();
    let l = g.num_loops();
    let den = pick_den(dyadic, t);
    // constructive first attempt: the interval of uniform weights for which the reference accepts
    if attempts > 2 && t.chance(0.6) {
        if let Some((lo, hi)) = uniform_weight_interval(g, min_omega) {
            let f = t.uniform(0.08, 0.92);
            let w0 = lo + f * (hi - lo);
            for spread in [0.25, 0.08, 0.0] {
                let ws: Vec<f64> = (0..ne).map(|_| w0 * (1.0 + spread * t.uniform(-1.0, 1.0))).collect();
                g.weights = ws.into_iter().map(|w| quantise(w, den)).collect();
                if g.min_proper_omega() > min_omega && (!need_pos_dod || g.dod() > min_omega.max(1e-3)) {
                    return true;
                }
            }
        } else {
            return false; // no uniform weight works; for massless graphs this means a scaleless subgraph
        }
    }
    for att in 0..attempts {
        if att + 1 == attempts && attempts > 2 {
            // last resort: heavy weights (accepted whenever no proper subset is mass-momentum spanning)
            let ws: Vec<f64> = (0..ne).map(|_| g.d as f64 / 2.0 + t.uniform(0.02, 0.6)).collect();
            g.weights = ws.into_iter().map(|w| quantise(w, den)).collect();
            let ok = g.min_proper_omega() > min_omega && (!need_pos_dod || g.dod() > min_omega.max(1e-3));
            return ok;
        }
        let target = t.uniform(0.15, 2.0);
        let spread = *t.pick(&[0.9, 0.5, 0.2, 0.0]);
        let base = (l as f64 * g.d as f64 / 2.0 + target) / ne as f64;
        let ws: Vec<f64> = (0..ne).map(|_| base * (1.0 + spread * (t.uniform(-0.4, 0.5)))).collect();
        g.weights = ws.into_iter().map(|w| quantise(w, den)).collect();
        let ok = g.min_proper_omega() > min_omega && (!need_pos_dod || g.dod() > min_omega.max(1e-3));
        if ok {
            return true;
        }
    }
    false
}

/// open interval of uniform edge weights w for which every proper non-empty subset has omega > min_omega and dod > 0
pub fn uniform_weight_interval(g: &G, min_omega: f64) -> Option<(f64, f64)> {
    let ne = g.nedges();
    let full = g.full();
    let l = g.num_loops() as f64;
    let dh = g.d as f64 / 2.0;
    let mut lo = (l * dh + min_omega.max(1e-3)) / ne as f64;
    let mut hi = f64::INFINITY;
    for m in 1..full {
        let k = (m as u64).count_ones() as f64;
        let lm = g.loops(m) as f64;
        if g.spanning(m) {
            // omega = -w(G\m) + (L - l_m) D/2
            let c = (l - lm) * dh - min_omega;
            hi = hi.min(c / (ne as f64 - k));
        } else {
            lo = lo.max((lm * dh + min_omega) / k);
        }
    }
    if hi == f64::INFINITY {
        hi = lo + 1.5;
    }
    if lo * 1.0001 < hi {
        Some((lo * 1.0001, hi * 0.9999))
    } else {
        None
    }
}

// ------------------------------------------------------------------ G-graph: arbitrary multigraphs
pub fn gen_any_graph(t: &mut Tape, tier: Tier) -> G {
    if t.chance(0.03) {
        return gen_sparse_large_graph(t, tier);
    }
    let nv = t.range(1, 6);
    let mut labels: Vec<u8> = if t.chance(0.6) {
        let mut ls = vec![];
        while ls.len() < nv {
            // boundary labels of the u8 range and of its halves are over-represented on purpose
            let c = if t.chance(0.3) { *t.pick(&[0u8, 255, 254, 1, 127, 128, 63, 64, 129, 126]) } else { t.below(256) as u8 };
            if !ls.contains(&c) {
                ls.push(c);
            } else {
                // deterministic fallback keeps the tape bounded
                let mut c2 = c;
                while ls.contains(&c2) {
                    c2 = c2.wrapping_add(1);
                }
                ls.push(c2);
            }
        }
        ls
    } else {
        (0..nv as u8).collect()
    };
    shuffle(t, &mut labels);
    let ne = t.range(1, tier.pick(7, 10));
    let edges: Vec<(u8, u8)> = (0..ne).map(|_| (labels[t.below(nv)], labels[t.below(nv)])).collect();
    let mass_mode = t.below(3);
    let massive: Vec<bool> = (0..ne)
        .map(|_| match mass_mode {
            0 => false,
            1 => t.bool(),
            _ => true,
        })
        .collect();
    let nx = t.below(nv + 4);
    let externals: Vec<u8> = (0..nx).map(|_| if t.chance(0.15) { t.below(256) as u8 } else { labels[t.below(nv)] }).collect();
    let d = t.range(1, 6);
    let mut g = G { edges, massive, weights: vec![1.0; ne], externals, d };
    let dyadic = !t.chance(0.4);
    let try_fit = !t.chance(0.25);
    fit_weights(t, &mut g, dyadic, 0.0, false, if try_fit { 6 } else { 1 });
    g
}

/// larger sparse graphs: chains, trees with a few chords, up to 12 (thorough 14) edges on up to E+1 vertices
pub fn gen_sparse_large_graph(t: &mut Tape, tier: Tier) -> G {
    let mut ne = t.range(8, tier.pick(12, 14));
    let mut shape = t.below(4);
    if tier == Tier::Thorough && t.chance(0.01) {
        // 2^15 / 2^16 table entries: only small-diameter shapes are affordable
        ne = t.range(15, 16);
        shape = 3;
    }
    let mut edges: Vec<(u8, u8)> = vec![];
    let base = t.below(200) as u8;
    let lab = |v: usize| base.wrapping_add(v as u8);
    match shape {
        0 => {
            // one chain, listed in order, optionally closed or with a bubble at the end
            for i in 0..ne {
                edges.push((lab(i), lab(i + 1)));
            }
            match t.below(3) {
                0 => {}
                1 => edges[ne - 1] = (lab(ne - 1), lab(0)),
                _ => edges[ne - 1] = (lab(ne - 2), lab(ne - 1)),
            }
        }
        1 => {
            // random tree, then chords
            let nv = t.range(ne / 2 + 1, ne);
            for v in 1..nv {
                let u = t.below(v);
                edges.push((lab(u), lab(v)));
            }
            while edges.len() < ne {
                edges.push((lab(t.below(nv)), lab(t.below(nv))));
            }
        }
        3 => {
            // many parallel edges and self-loops on two or three vertices
            let nv = t.range(1, 3);
            for _ in 0..ne {
                edges.push((lab(t.below(nv)), lab(t.below(nv))));
            }
        }
        _ => {
            // two chains sharing their end points (large cycle) plus pendant edges
            let half = ne / 2;
            for i in 0..half {
                edges.push((lab(i), lab(i + 1)));
            }
            for i in half..ne {
                edges.push((lab(t.below(half + 1)), lab(half + 1 + (i - half))));
            }
        }
    }
    if t.bool() {
        shuffle(t, &mut edges);
    }
    let mass_mode = t.below(3);
    let massive: Vec<bool> = (0..ne)
        .map(|_| match mass_mode {
            0 => false,
            1 => t.bool(),
            _ => true,
        })
        .collect();
    let mut verts: Vec<u8> = edges.iter().flat_map(|&(a, b)| [a, b]).collect();
    verts.sort();
    verts.dedup();
    let nx = if t.chance(0.15) { verts.len() } else { t.below(7) };
    let externals: Vec<u8> = if nx == verts.len() { verts.clone() } else { (0..nx).map(|_| verts[t.below(verts.len())]).collect() };
    let d = t.range(1, 6);
    let mut g = G { edges, massive, weights: vec![1.0; ne], externals, d };
    let dyadic = !t.chance(0.4);
    fit_weights(t, &mut g, dyadic, 0.0, false, 4);
    g
}

/// move one omega of a chosen proper subset next to the acceptance boundary by changing one weight
pub fn push_to_boundary(t: &mut Tape, g: &mut G) -> Option<(usize, f64)> {
    let ne = g.nedges();
    if ne < 2 {
        return None;
    }
    let full = g.full();
    let m = 1 + t.below(full - 1); // proper, non-empty
    let tab = g.table_f64();
    let (_, sp, om) = tab[m];
    // an edge whose weight moves omega(m): inside m if not spanning (+), outside m if spanning (-)
    let cands: Vec<usize> = (0..ne).filter(|&e| (m >> e & 1 == 1) != sp).collect();
    if cands.is_empty() {
        return None;
    }
    let e = cands[t.below(cands.len())];
    let target = match t.below(12) {
        8 => 1.1102230246251565e-16,   // 2^-53: barely convergent
        9 => 8.673617379884035e-19,    // 2^-60
        10 => -1.1102230246251565e-16,
        11 => 1e-30,
        0 => 1.0 / 64.0,
        1 => -1.0 / 64.0,
        2 => 0.0,
        3 => 1e-6,
        4 => -1e-6,
        5 => 2.0 / 64.0,
        6 => -3.0 / 64.0,
        _ => 1e-4,
    };
    let delta = target - om;
    let neww = if sp { g.weights[e] - delta } else { g.weights[e] + delta };
    if !(neww > 1e-3) || !neww.is_finite() {
        return None;
    }
    g.weights[e] = neww;
    Some((m, target))
}

// ------------------------------------------------------------------ G-phys: connected graphs with physical kinematics
pub fn gen_phys_graph(t: &mut Tape, max_e: usize, max_l: usize, min_omega: f64, dmax: usize) -> Option<G> {
    // up to 7 vertices (trees of 6 edges + chords) as far as the edge budget allows
    let nv = t.range(1, 7.min(max_e.max(2) - 1).max(1));
    let mut edges: Vec<(u8, u8)> = vec![];
    for v in 1..nv {
        let u = t.below(v);
        if t.bool() {
            edges.push((u as u8, v as u8));
        } else {
            edges.push((v as u8, u as u8));
        }
    }
    let room = max_e.saturating_sub(edges.len()).min(max_l);
    if room == 0 {
        return None;
    }
    let extra = t.range(1, room);
    for _ in 0..extra {
        edges.push((t.below(nv) as u8, t.below(nv) as u8));
    }
    shuffle(t, &mut edges);
    let ne = edges.len();
    let mass_mode = t.below(3);
    let mut massive: Vec<bool> = (0..ne)
        .map(|_| match mass_mode {
            0 => false,
            1 => t.bool(),
            _ => true,
        })
        .collect();
    // a massless self-loop is scaleless (no weights are accepted): give it a mass
    for e in 0..ne {
        if edges[e].0 == edges[e].1 {
            massive[e] = true;
        }
    }
    let ks: Vec<usize> = [0usize, 2, 3, 4, 5, 6, 7].into_iter().filter(|&k| k <= nv).collect();
    let mut k = *t.pick(&ks);
    if !massive.iter().all(|&m| m) && t.chance(0.5) {
        // massless parts need external momentum flowing through them: prefer many external vertices
        k = *ks.iter().max().unwrap();
    }
    if k == 0 && !massive.iter().any(|&m| m) {
        if nv >= 2 {
            k = 2;
        } else {
            let e = t.below(ne);
            massive[e] = true;
        }
    }
    let mut vs: Vec<u8> = (0..nv as u8).collect();
    shuffle(t, &mut vs);
    let mut externals = vs[..k].to_vec();
    if k >= 2 && t.chance(0.1) {
        // two external legs attached to the same vertex: the externals list repeats a vertex
        let dup = externals[t.below(k)];
        let pos = t.below(k + 1);
        externals.insert(pos, dup);
    }
    let d = t.range(1, dmax);
    let mut g = G { edges, massive, weights: vec![1.0; ne], externals, d };
    let dyadic = !t.chance(0.3);
    if !fit_weights(t, &mut g, dyadic, min_omega, true, 8) {
        return None;
    }
    // occasionally relabel vertices with arbitrary u8 labels
    if t.chance(0.2) {
        let map: Vec<u8> = match t.below(3) {
            0 => {
                let off = t.below(200) as u8;
                let mul = *t.pick(&[1u8, 3, 7, 11]);
                (0..nv as u8).map(|v| off.wrapping_add(v.wrapping_mul(mul))).collect()
            }
            1 => {
                // distinct labels that agree in their low bits (v, v+64, v+128, ...: a subgraph kept from a larger graph)
                let stride = *t.pick(&[16usize, 32, 64, 128]);
                let lows: Vec<usize> = (0..2).map(|_| t.below(stride)).collect();
                let mut used = vec![false; 256];
                let mut out = vec![];
                for _ in 0..nv {
                    let mut l = (lows[t.below(2)] + stride * t.below(256 / stride)) % 256;
                    while used[l] {
                        l = (l + 1) % 256;
                    }
                    used[l] = true;
                    out.push(l as u8);
                }
                out
            }
            _ => {
                let mut used = vec![false; 256];
                let mut out = vec![];
                for _ in 0..nv {
                    let mut l = t.below(256);
                    while used[l] {
                        l = (l + 1) % 256;
                    }
                    used[l] = true;
                    out.push(l as u8);
                }
                out
            }
        };
        let f = |v: u8| map[v as usize];
        g.edges = g.edges.iter().map(|&(a, b)| (f(a), f(b))).collect();
        g.externals = g.externals.iter().map(|&v| f(v)).collect();
    }
    Some(g)
}

/// accepted graph with 9..11 loops on 1..3 vertices (bananas, flowers and mixtures; 9..13 edges): L matrices beyond
/// dimension 8. Part of the separately budgeted class of large graphs.
pub fn gen_phys_graph_manyloop(t: &mut Tape, dmax: usize) -> Option<G> {
    let nv = t.range(1, 3);
    let nl = t.range(9, 11);
    let ne = nl + nv - 1;
    let mut edges: Vec<(u8, u8)> = vec![];
    for v in 1..nv {
        let u = t.below(v);
        edges.push(if t.bool() { (u as u8, v as u8) } else { (v as u8, u as u8) });
    }
    let selfloops = t.chance(0.3);
    while edges.len() < ne {
        let a = t.below(nv);
        let b = if nv == 1 || (selfloops && t.chance(0.3)) { a } else { (a + 1 + t.below(nv - 1)) % nv };
        edges.push((a as u8, b as u8));
    }
    if t.bool() {
        shuffle(t, &mut edges);
    }
    let all_massive = t.chance(0.7) || nv == 1;
    let mut massive: Vec<bool> = (0..ne).map(|_| all_massive || t.bool()).collect();
    for e in 0..ne {
        if edges[e].0 == edges[e].1 {
            massive[e] = true;
        }
    }
    let externals: Vec<u8> = if nv >= 2 && (!massive.iter().all(|&m| m) || t.bool()) { (0..nv as u8).collect() } else { vec![] };
    let d = t.range(1, dmax.min(4));
    let mut g = G { edges, massive, weights: vec![1.0; ne], externals, d };
    let dyadic = !t.chance(0.3);
    if !fit_weights(t, &mut g, dyadic, 0.15, true, 8) {
        return None;
    }
    Some(g)
}

/// accepted physical graph with 13 or 14 edges (more than 12, not a multiple of 12) and 1..3 loops: long chains and
/// trees with a few chords. Rare class of the sampling properties (the table has 2^13 / 2^14 entries).
pub fn gen_phys_graph_large(t: &mut Tape, dmax: usize) -> Option<G> {
    if t.chance(0.35) {
        return gen_phys_graph_manyloop(t, dmax);
    }
    let ne = *t.pick(&[13usize, 13, 14]);
    let nl = t.range(1, 3);
    let nv = ne - nl + 1;
    let chainy = t.chance(0.5);
    let mut edges: Vec<(u8, u8)> = vec![];
    for v in 1..nv {
        let u = if chainy && t.chance(0.8) { v - 1 } else { t.below(v) };
        edges.push(if t.bool() { (u as u8, v as u8) } else { (v as u8, u as u8) });
    }
    for _ in 0..nl {
        let a = t.below(nv);
        let mut b = t.below(nv);
        if a == b && t.chance(0.7) {
            b = (a + 1 + t.below(nv - 1)) % nv;
        }
        edges.push((a as u8, b as u8));
    }
    if t.bool() {
        shuffle(t, &mut edges);
    }
    let mass_mode = t.weighted(&[0.6, 0.25, 0.15]);
    let mut massive: Vec<bool> = (0..ne).map(|_| match mass_mode { 0 => true, 1 => t.bool(), _ => false }).collect();
    for e in 0..ne {
        if edges[e].0 == edges[e].1 {
            massive[e] = true;
        }
    }
    let mut vs: Vec<u8> = (0..nv as u8).collect();
    shuffle(t, &mut vs);
    let k = if massive.iter().all(|&m| m) { *t.pick(&[0usize, 2, 3, nv]) } else { nv };
    let externals = vs[..k].to_vec();
    let d = t.range(1, dmax);
    let mut g = G { edges, massive, weights: vec![1.0; ne], externals, d };
    let dyadic = !t.chance(0.3);
    if !fit_weights(t, &mut g, dyadic, 0.15, true, 8) {
        return None;
    }
    Some(g)
}

#[derive(Clone, Debug, Serialize, Deserialize, PartialEq)]
pub struct Kin {
    /// loop signature, sig[e][l]
    pub sig: Vec<Vec<isize>>,
    /// constant part of the edge momenta, q_e = sum_l sig[e][l] k_l + shifts[e]
    pub shifts: Vec<Vec<f64>>,
    /// mass per edge (0 for massless edges)
    pub masses: Vec<f64>,
    /// momentum flowing into the graph at each external vertex (sums to zero)
    pub inflow: Vec<(u8, Vec<f64>)>,
}

fn tree_path(g: &G, tree: &[bool], s: u8, t_: u8) -> Vec<(usize, isize)> {
    fn dfs(g: &G, tree: &[bool], cur: u8, t_: u8, used: &mut Vec<bool>, path: &mut Vec<(usize, isize)>) -> bool {
        if cur == t_ {
            return true;
        }
        for e in 0..g.nedges() {
            if tree[e] && !used[e] {
                let (a, b) = g.edges[e];
                let (nxt, dir) = if a == cur {
                    (b, 1)
                } else if b == cur {
                    (a, -1)
                } else {
                    continue;
                };
                used[e] = true;
                path.push((e, dir));
                if dfs(g, tree, nxt, t_, used, path) {
                    return true;
                }
                path.pop();
            }
        }
        false
    }
    let mut used = vec![false; g.nedges()];
    let mut path = vec![];
    let ok = dfs(g, tree, s, t_, &mut used, &mut path);
    assert!(ok, "no tree path (graph not connected?)");
    path
}

/// spanning tree chosen by a random edge order
pub fn random_tree(t: &mut Tape, g: &G) -> Vec<bool> {
    let ne = g.nedges();
    let mut order: Vec<usize> = (0..ne).collect();
    shuffle(t, &mut order);
    let mut p: Vec<usize> = (0..256).collect();
    let mut tree = vec![false; ne];
    for &e in &order {
        let (a, b) = g.edges[e];
        let (ra, rb) = (find(&mut p, a as usize), find(&mut p, b as usize));
        if ra != rb {
            p[ra] = rb;
            tree[e] = true;
        }
    }
    tree
}

/// fundamental cycle basis of a spanning tree and tree-routed external momenta
pub fn base_routing(g: &G, tree: &[bool], inflow_free: &[Vec<f64>]) -> (Vec<Vec<isize>>, Vec<Vec<f64>>, Vec<(u8, Vec<f64>)>) {
    let ne = g.nedges();
    let d = g.d;
    let chords: Vec<usize> = (0..ne).filter(|&e| !tree[e]).collect();
    let nl = chords.len();
    let mut sig = vec![vec![0isize; nl]; ne];
    for (l, &c) in chords.iter().enumerate() {
        sig[c][l] = 1;
        let (a, b) = g.edges[c];
        if a == b {
            continue;
        }
        for (e, dir) in tree_path(g, tree, b, a) {
            sig[e][l] = dir;
        }
    }
    let mut shifts = vec![vec![0.0; d]; ne];
    let mut inflow: Vec<(u8, Vec<f64>)> = g.externals.iter().map(|&v| (v, vec![0.0; d])).collect();
    if g.externals.len() >= 2 {
        let last = g.externals.len() - 1;
        let sink = g.externals[last];
        for i in 0..last {
            let v = g.externals[i];
            for (e, dir) in tree_path(g, tree, v, sink) {
                for k in 0..d {
                    shifts[e][k] += dir as f64 * inflow_free[i][k];
                }
            }
            for k in 0..d {
                inflow[i].1[k] += inflow_free[i][k];
                inflow[last].1[k] -= inflow_free[i][k];
            }
        }
    }
    (sig, shifts, inflow)
}

/// random routing transformation: unimodular column operations, orientation flips, loop-momentum offsets
pub fn transform_routing(t: &mut Tape, sig: &mut Vec<Vec<isize>>, shifts: &mut Vec<Vec<f64>>, max_ops: usize, allow_offsets: bool) -> (usize, usize, bool) {
    let ne = sig.len();
    let nl = sig[0].len();
    let d = shifts[0].len();
    let nops = t.below(max_ops + 1);
    let mut done = 0;
    for _ in 0..nops {
        if nl < 2 {
            // only negation is possible
            if t.bool() {
                for e in 0..ne {
                    sig[e][0] = -sig[e][0];
                }
                done += 1;
            }
            continue;
        }
        let i = t.below(nl);
        let mut j = t.below(nl - 1);
        if j >= i {
            j += 1;
        }
        match t.below(4) {
            0 => {
                for e in 0..ne {
                    sig[e].swap(i, j);
                }
            }
            1 => {
                for e in 0..ne {
                    sig[e][i] = -sig[e][i];
                }
            }
            2 => {
                if sig.iter().all(|r| (r[i] + r[j]).abs() <= 3) {
                    for e in 0..ne {
                        sig[e][i] += sig[e][j];
                    }
                }
            }
            _ => {
                if sig.iter().all(|r| (r[i] - r[j]).abs() <= 3) {
                    for e in 0..ne {
                        sig[e][i] -= sig[e][j];
                    }
                }
            }
        }
        done += 1;
    }
    let mut flips = 0;
    for e in 0..ne {
        if t.chance(0.2) {
            flips += 1;
            for l in 0..nl {
                sig[e][l] = -sig[e][l];
            }
            for k in 0..d {
                shifts[e][k] = -shifts[e][k];
            }
        }
    }
    let mut off = false;
    if allow_offsets && t.chance(0.4) {
        off = true;
        for l in 0..nl {
            let c: Vec<f64> = (0..d).map(|_| t.uniform(-1.0, 1.0)).collect();
            for e in 0..ne {
                for k in 0..d {
                    shifts[e][k] += sig[e][l] as f64 * c[k];
                }
            }
        }
    }
    (done, flips, off)
}

/// free external momenta and masses, with overall-scale and mass-hierarchy classes ("any Euclidean kinematics")
pub fn gen_kin_data(t: &mut Tape, g: &G) -> (Vec<Vec<f64>>, Vec<f64>) {
    let (mut free, mut masses) = gen_kin_data_unit(t, g);
    if t.chance(0.15) {
        // everything in different units: masses and momenta times 10^k
        let s = 10f64.powf(t.uniform(-3.0, 3.0));
        for p in free.iter_mut() {
            for v in p.iter_mut() {
                *v *= s;
            }
        }
        for m in masses.iter_mut() {
            *m *= s;
        }
    }
    if t.chance(0.1) {
        // a hierarchy: one mass (or one momentum) three orders of magnitude away from the rest
        let f = if t.bool() { 1e-3 } else { 1e3 };
        let nm = masses.iter().filter(|m| **m > 0.0).count();
        if nm > 0 && t.bool() {
            let k = t.below(nm);
            if let Some(m) = masses.iter_mut().filter(|m| **m > 0.0).nth(k) {
                *m *= f;
            }
        } else if !free.is_empty() {
            let k = t.below(free.len());
            for v in free[k].iter_mut() {
                *v *= f;
            }
        }
    }
    (free, masses)
}
/// momenta in [-2,2], masses in [0.3,2]
pub fn gen_kin_data_unit(t: &mut Tape, g: &G) -> (Vec<Vec<f64>>, Vec<f64>) {
    let ne = g.nedges();
    let d = g.d;
    let nfree = g.externals.len().saturating_sub(1);
    let free: Vec<Vec<f64>> = (0..nfree)
        .map(|_| {
            (0..d)
                .map(|_| {
                    let v = t.uniform(-2.0, 2.0);
                    if v.abs() < 0.05 {
                        0.05 + v.abs()
                    } else {
                        v
                    }
                })
                .collect()
        })
        .collect();
    let masses: Vec<f64> = (0..ne).map(|e| if g.massive[e] { t.uniform(0.3, 2.0) } else { 0.0 }).collect();
    (free, masses)
}
/// hand-written-style kinematics: momenta with small integer / half-integer components (components that
/// cancel, vanish or coincide are frequent), unit-like masses
pub fn gen_kin_data_special(t: &mut Tape, g: &G) -> (Vec<Vec<f64>>, Vec<f64>) {
    let ne = g.nedges();
    let d = g.d;
    let nfree = g.externals.len().saturating_sub(1);
    let free: Vec<Vec<f64>> = (0..nfree)
        .map(|_| {
            let mut p: Vec<f64> = (0..d).map(|_| (t.range(0, 8) as f64 - 4.0) * 0.5).collect();
            if p.iter().all(|x| *x == 0.0) {
                p[0] = 1.0;
            }
            p
        })
        .collect();
    let masses: Vec<f64> = (0..ne).map(|e| if g.massive[e] { *t.pick(&[1.0, 0.5, 2.0, 1.5]) } else { 0.0 }).collect();
    (free, masses)
}
/// one routing (cycle basis + shifts) of given kinematic data
pub fn gen_routing(t: &mut Tape, g: &G, free: &[Vec<f64>], masses: &[f64], max_ops: usize) -> Kin {
    let tree = random_tree(t, g);
    let (mut sig, mut shifts, inflow) = base_routing(g, &tree, free);
    transform_routing(t, &mut sig, &mut shifts, max_ops, true);
    Kin { sig, shifts, masses: masses.to_vec(), inflow }
}
/// round to the 2^-16 grid: sums of a few such numbers are exact in f64, so two routings of the same
/// kinematics are *exactly* equivalent (needed when the comparison is sharper than f64)
pub fn grid16(v: f64) -> f64 {
    (v * 65536.0).round() / 65536.0
}
pub fn gen_routing_exact(t: &mut Tape, g: &G, free: &[Vec<f64>], masses: &[f64], max_ops: usize) -> Kin {
    let tree = random_tree(t, g);
    let (mut sig, mut shifts, inflow) = base_routing(g, &tree, free);
    transform_routing(t, &mut sig, &mut shifts, max_ops, false);
    // offsets on the grid
    if t.chance(0.4) {
        let nl = sig[0].len();
        let d = g.d;
        for l in 0..nl {
            let c: Vec<f64> = (0..d).map(|_| grid16(t.uniform(-1.0, 1.0))).collect();
            for e in 0..sig.len() {
                for k in 0..d {
                    shifts[e][k] += sig[e][l] as f64 * c[k];
                }
            }
        }
    }
    Kin { sig, shifts, masses: masses.to_vec(), inflow }
}
/// kinematics of order one only (momenta in [-2,2], masses in [0.3,2]): for the statistical property, whose
/// decision rule needs weights of bounded spread
pub fn gen_kin_unit(t: &mut Tape, g: &G, max_ops: usize) -> Kin {
    let (free, masses) = gen_kin_data_unit(t, g);
    gen_routing(t, g, &free, &masses, max_ops)
}
pub fn gen_kin(t: &mut Tape, g: &G, max_ops: usize) -> Kin {
    let (free, masses) = gen_kin_data(t, g);
    gen_routing(t, g, &free, &masses, max_ops)
}

// ------------------------------------------------------------------ structured x-space points
#[derive(Clone, Copy, Debug)]
pub struct PointProfile {
    /// weights of u classes: uniform, interior, boundary, extreme
    pub u_w: [f64; 4],
    /// weights of xi classes: uniform, halving, moderate, tiny
    pub xi_w: [f64; 4],
    pub lambda_tail: f64,
    pub bm_extreme: f64,
}
pub const MODERATE: PointProfile = PointProfile { u_w: [0.5, 0.5, 0.0, 0.0], xi_w: [0.25, 0.1, 0.57, 0.08], lambda_tail: 0.03, bm_extreme: 0.03 };
pub const SECTOR: PointProfile = PointProfile { u_w: [0.3, 0.4, 0.2, 0.1], xi_w: [0.3, 0.2, 0.4, 0.1], lambda_tail: 0.1, bm_extreme: 0.1 };
pub const CORNERS: PointProfile = PointProfile { u_w: [0.2, 0.2, 0.3, 0.3], xi_w: [0.3, 0.1, 0.3, 0.3], lambda_tail: 0.3, bm_extreme: 0.3 };

pub fn dimension(g: &G) -> usize {
    let n = g.num_loops() * g.d;
    2 * g.nedges() - 1 + n + n % 2
}

/// f64 cumulative probabilities of the edges of `sub` (reference J), in index order
pub fn cum_probs(ne: usize, sub: usize, omega: &[f64], j: &[f64]) -> Vec<(usize, f64)> {
    let mut acc = 0.0;
    let mut out = vec![];
    for e in 0..ne {
        if sub >> e & 1 == 1 {
            let w = sub ^ (1 << e);
            acc += j[w] / j[sub] / omega[w];
            out.push((e, acc));
        }
    }
    out
}

/// Generate an x-space point for graph `g`, class by class. Returns the point and a note of the classes used.
pub fn gen_point(t: &mut Tape, g: &G, prof: &PointProfile) -> (Vec<f64>, Vec<&'static str>) {
    let ne = g.nedges();
    let dim = dimension(g);
    let tab = g.table_f64();
    let omega: Vec<f64> = tab.iter().map(|e| e.2).collect();
    let j = g.j_f64(&omega);
    let mut x = vec![0.5; dim];
    let mut classes = vec![];
    let mut sub = g.full();
    for step in 0..ne.saturating_sub(1) {
        let cp = cum_probs(ne, sub, &omega, &j);
        let ucls = t.weighted(&prof.u_w);
        let u = match ucls {
            0 => t.unit(),
            1 => {
                let k = t.below(cp.len());
                let lo = if k == 0 { 0.0 } else { cp[k - 1].1 };
                let hi = cp[k].1.min(1.0);
                let f = t.uniform(0.05, 0.95);
                classes.push("u:interior");
                (lo + f * (hi - lo)).clamp(0.0, ONE_M)
            }
            2 => {
                let k = t.below(cp.len());
                let off = if t.bool() {
                    t.range(0, 6) as i64 - 3
                } else {
                    // beyond the rounding neighbourhood: 2^j ulps away from the boundary, either side
                    let mag = 1i64 << t.range(4, 40);
                    if t.bool() {
                        mag
                    } else {
                        -mag
                    }
                };
                classes.push("u:boundary");
                let c = cp[k].1.clamp(0.0, 1.0);
                ulp_step(c, off).clamp(0.0, ONE_M)
            }
            _ => {
                classes.push("u:extreme");
                *t.pick(&[ONE_M, 1.0 - 2.0 * TWO_M53, 0.0, TWO_M53, 5e-324, 2.2250738585072014e-308, 1.0 - 4.0 * TWO_M53])
            }
        };
        x[2 * step] = u;
        // follow the path the reference predicts
        let chosen = cp.iter().find(|(_, c)| *c >= u).map(|(e, _)| *e).unwrap_or(cp.last().unwrap().0);
        sub ^= 1 << chosen;
        let om = omega[sub];
        let xcls = t.weighted(&prof.xi_w);
        let xi = match xcls {
            0 => t.unit().max(TWO_M53),
            1 => {
                classes.push("xi:halving");
                2f64.powf(-om).clamp(5e-324, ONE_M)
            }
            2 => (0.3 + 0.7 * t.unit()).powf(om.max(1e-3)).clamp(1e-300, ONE_M),
            _ => {
                classes.push("xi:tiny");
                // exponent concentrated at 3..30 with a tail down to 1e-300 (and, rarely, the smallest positive number)
                let r = t.unit();
                if r > 0.97 {
                    5e-324
                } else {
                    10f64.powf(-(3.0 + 297.0 * r * r * r * r))
                }
            }
        };
        x[2 * step + 1] = xi;
    }
    let il = 2 * ne - 2;
    x[il] = if t.chance(prof.lambda_tail) {
        classes.push("lambda:tail");
        *t.pick(&[1e-5, 1e-10, 1.0 - 1e-10, ONE_M, TWO_M53, 1e-300, 0.999999])
    } else {
        t.uniform(0.002, 0.998)
    };
    let mut i = il + 1;
    while i < dim {
        let a = if t.chance(prof.bm_extreme) {
            classes.push("bm:extreme");
            if t.chance(0.35) {
                // every distance from either end of (0,1) on a log scale: 10^-u and 1 - 10^-u, u in [0.3, 16]
                let d = 10f64.powf(-t.uniform(0.3, 16.0));
                if t.bool() { d } else { 1.0 - d }
            } else {
                *t.pick(&[1e-300, ONE_M, TWO_M53, 1e-17, 0.5, 5e-324, 1e-310, 2.2250738585072014e-308, 1.0 - 2.0 * TWO_M53, 1e-320])
            }
        } else {
            t.unit().max(TWO_M53)
        };
        let b = if t.chance(prof.bm_extreme) { if t.chance(0.3) { (*t.pick(&[0.0, 0.25, 0.5, 0.75, 1.0]) + (if t.bool() { 1.0 } else { -1.0 }) * 10f64.powf(-t.uniform(1.0, 17.0))).clamp(0.0, ONE_M) } else { *t.pick(&[0.0, 0.25, 0.5, 0.75, ONE_M, 0.125]) } } else { t.unit() };
        x[i] = a;
        if i + 1 < dim {
            x[i + 1] = b;
        }
        i += 2;
    }
    classes.sort();
    classes.dedup();
    (x, classes)
}

/// A complete sampling case: accepted connected graph + kinematics + point
#[derive(Clone, Debug, Serialize, Deserialize, PartialEq)]
pub struct Phys {
    pub g: G,
    pub kin: Kin,
    pub x: Vec<f64>,
    #[serde(default)]
    pub classes: Vec<String>,
}

impl Phys {
    /// which edges are given `Some(mass)` at sampling time: the graph's mass flags unless the case carries a class
    /// "mass-given:<bits>" (edge data that contradicts the flags the sampler was built with)
    pub fn mass_given(&self) -> Vec<bool> {
        for c in &self.classes {
            if let Some(b) = c.strip_prefix("mass-given:") {
                if let Ok(bits) = u64::from_str_radix(b, 2) {
                    return (0..self.g.nedges()).map(|e| bits >> e & 1 == 1).collect();
                }
            }
        }
        self.g.massive.clone()
    }
}
/// in place: let the run-time edge data contradict the mass flags of the graph (a massless-flagged edge is given a mass,
/// a massive-flagged edge none); the oracle masses follow the edge data
pub fn contradict_mass_flags(t: &mut Tape, p: &mut Phys) {
    let ne = p.g.nedges();
    let mut bits = 0u64;
    let mut changed = false;
    for e in 0..ne {
        let flip = t.chance(0.4);
        let given = p.g.massive[e] != flip;
        if given {
            bits |= 1 << e;
        }
        if flip {
            changed = true;
            p.kin.masses[e] = if given { t.uniform(0.3, 2.0) } else { 0.0 };
        }
    }
    if changed {
        p.classes.push(format!("mass-given:{bits:b}"));
    }
}

pub struct PhysOpts {
    pub max_e: usize,
    pub max_l: usize,
    pub min_omega: f64,
    pub dmax: usize,
    pub max_ops: usize,
    pub profile: PointProfile,
}

/// an accepted DISCONNECTED graph: a physical graph plus an all-massive vacuum component on fresh vertices
/// (block-diagonal routing); only for properties whose oracle does not need Symanzik polynomials
pub fn gen_phys_union(t: &mut Tape, o: &PhysOpts) -> Option<Phys> {
    let g1 = gen_phys_graph(t, o.max_e.saturating_sub(2).max(2), o.max_l.saturating_sub(1).max(1), o.min_omega, o.dmax)?;
    let kin1 = gen_kin(t, &g1, o.max_ops);
    let d = g1.d;
    // vacuum component: 1..2 fresh vertices, 1..2 loops
    let used: Vec<u8> = g1.edges.iter().flat_map(|&(a, b)| [a, b]).collect();
    let mut fresh = (0..=255u8).rev().filter(|v| !used.contains(v));
    let (va, vb) = (fresh.next()?, fresh.next()?);
    let e2: Vec<(u8, u8)> = match t.below(3) {
        0 => vec![(va, va)],
        1 => vec![(va, vb), (vb, va)],
        _ => vec![(va, va), (va, vb), (vb, va)],
    };
    let n2 = e2.len();
    let l2 = if n2 == 3 { 2 } else { 1 };
    let w2: Vec<f64> = (0..n2).map(|_| ((d as f64 / 2.0 + t.uniform(0.1, 1.0)) * 64.0).round() / 64.0).collect();
    let mut g = g1.clone();
    let pos = if t.bool() { 0 } else { g.edges.len() };
    // interleave at the front or the back so that edge indices of the two components mix with the removal order
    let mut sig: Vec<Vec<isize>> = vec![];
    let nl1 = kin1.sig[0].len();
    let row1 = |r: &Vec<isize>| { let mut v = r.clone(); v.extend(std::iter::repeat(0).take(l2)); v };
    let sig2: Vec<Vec<isize>> = match n2 {
        1 => vec![vec![1]],
        2 => vec![vec![1], vec![1]],
        _ => vec![vec![1, 0], vec![0, 1], vec![0, 1]],
    };
    let row2 = |r: &Vec<isize>| { let mut v = vec![0; nl1]; v.extend(r.iter().cloned()); v };
    let m2: Vec<f64> = (0..n2).map(|_| t.uniform(0.3, 2.0)).collect();
    let mut shifts = kin1.shifts.clone();
    let mut masses = kin1.masses.clone();
    for r in &kin1.sig {
        sig.push(row1(r));
    }
    let scatter = t.bool();
    for (i, e) in e2.iter().enumerate() {
        // either as a contiguous block at the front/back, or scattered among the edges of the first component
        let at = if scatter { t.below(g.edges.len() + 1) } else { (pos + i).min(g.edges.len()) };
        g.edges.insert(at, *e);
        g.massive.insert(at, true);
        g.weights.insert(at, w2[i]);
        sig.insert(at, row2(&sig2[i]));
        shifts.insert(at, vec![0.0; d]);
        masses.insert(at, m2[i]);
    }
    if t.bool() {
        // the loops of the two components in arbitrary column order
        let nl = nl1 + l2;
        let mut perm: Vec<usize> = (0..nl).collect();
        shuffle(t, &mut perm);
        for r in sig.iter_mut() {
            let old = r.clone();
            for (c, &pc) in perm.iter().enumerate() {
                r[c] = old[pc];
            }
        }
    }
    if !(g.min_proper_omega() > o.min_omega && g.dod() > 1e-3) || g.nedges() > 12 {
        return None;
    }
    let kin = Kin { sig, shifts, masses, inflow: kin1.inflow.clone() };
    let (x, mut classes) = gen_point(t, &g, &o.profile);
    classes.push("graph:disconnected");
    Some(Phys { g, kin, x, classes: classes.into_iter().map(String::from).collect() })
}

pub fn gen_phys(t: &mut Tape, o: &PhysOpts) -> Option<Phys> {
    let g = gen_phys_graph(t, o.max_e, o.max_l, o.min_omega, o.dmax)?;
    let kin = gen_kin(t, &g, o.max_ops);
    let (x, classes) = gen_point(t, &g, &o.profile);
    Some(Phys { g, kin, x, classes: classes.into_iter().map(String::from).collect() })
}

/// sampling case on an accepted 13/14-edge graph (see `gen_phys_graph_large`)
pub fn gen_phys_large(t: &mut Tape, max_ops: usize, profile: &PointProfile) -> Option<Phys> {
    let g = gen_phys_graph_large(t, 6)?;
    let kin = gen_kin(t, &g, max_ops);
    let (x, mut classes) = gen_point(t, &g, profile);
    classes.push(if g.num_loops() >= 9 { "graph:9-11-loops" } else { "graph:13-14-edges" });
    Some(Phys { g, kin, x, classes: classes.into_iter().map(String::from).collect() })
}

/// developer aid: acceptance statistics of the physical-graph generator
pub fn genstats() {
    if std::env::var("GENSTATS_LARGE").is_ok() {
        let tapes = crate::engine::sample_tapes("genstats-large", 1, 40, 400);
        let (mut ok, mut rej) = (0, 0);
        for tp in &tapes {
            let mut t = Tape::new(tp);
            let t0 = std::time::Instant::now();
            match gen_phys_graph_large(&mut t, 6) {
                Some(g) => {
                    ok += 1;
                    let tg = t0.elapsed();
                    let t1 = std::time::Instant::now();
                    let acc = crate::sut::build::<3>(&G { d: 3, ..g.clone() }, vec![vec![0isize; g.num_loops()]; g.nedges()]).is_ok();
                    eprintln!("E={} L={} D={} gen {:?} build(D=3) {:?} built={acc}", g.nedges(), g.num_loops(), g.d, tg, t1.elapsed());
                }
                None => rej += 1,
            }
        }
        eprintln!("ok {ok} rejected {rej}");
        return;
    }
    let tapes = crate::engine::sample_tapes("genstats", 1, 20000, 200);
    let mut tot = std::collections::BTreeMap::<String, (u32, u32)>::new();
    for tp in &tapes {
        let mut t = Tape::new(tp);
        // replicate the structural part to classify
        let mut t2 = Tape::new(tp);
        let nv = t2.range(1, 5);
        let r = gen_phys_graph(&mut t, 8, 5, 0.15, 6);
        let key = match &r {
            Some(g) => format!("nv={nv} ok mass={}{} ext={}", g.massive.iter().any(|&m| m) as u8, g.massive.iter().all(|&m| m) as u8, g.externals.len()),
            None => format!("nv={nv} REJ"),
        };
        let e = tot.entry(key).or_default();
        e.0 += 1;
        let _ = &mut e.1;
    }
    for (k, v) in tot {
        eprintln!("{k}: {}", v.0);
    }
}
