pub mod engine;
pub mod gen;
pub mod oracle;
pub mod props;
pub mod scalars;
pub mod sut;
