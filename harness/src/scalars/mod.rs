pub mod dd;
pub mod exq;
pub mod rq;
pub mod tracked;
