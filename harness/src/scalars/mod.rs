pub mod dd;
pub mod tracked;
