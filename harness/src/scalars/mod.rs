pub mod dd;
pub mod exq;
pub mod tracked;
