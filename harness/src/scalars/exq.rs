//! Exact-ring scalar with deliberately coarse sqrt and division ("Xq").
//! +, -, * and comparisons are exact (dyadic rationals), so every evaluation order of a sum of products gives the
//! same value; sqrt, / and inv are rounded to 16 significant bits (which also keeps every number short).
//! Running the generic matrix routine on this type separates two things that are of the same size in f64: the
//! *residual* of the returned inverse (here ~1e-5, caused by the coarse pivots) and the *rounding error of
//! evaluating that residual* inside the stability test (here: only the 16-bit square roots of the column norms,
//! a relative 1.6e-5). The transcendental functions are not needed by the matrix routine and panic.
use crate::oracle::graph::{q, qf, Q};
use momtrop::float::MomTropFloat;
use num::{One, Signed, Zero};
use std::ops::*;

#[derive(Clone, Debug, PartialEq, PartialOrd)]
pub struct Xq(pub Q);

/// relative accuracy of `Xq::sqrt`
pub const SQRT_REL: f64 = 1.6e-5;

impl Xq {
    pub fn f(x: f64) -> Xq {
        Xq(q(x))
    }
    fn coarse_sqrt(v: &Q) -> Q {
        if v.is_negative() {
            panic!("xq-sqrt-of-negative");
        }
        if v.is_zero() {
            return Q::zero();
        }
        let s = qf(v).sqrt();
        if !(s.is_finite() && s > 0.0) {
            panic!("xq-sqrt-out-of-range");
        }
        Xq::coarse(s)
    }
    /// round to 16 significant bits by clearing the low mantissa bits (exact, no range limits)
    fn coarse(s: f64) -> Q {
        if s == 0.0 {
            return Q::zero();
        }
        if !s.is_finite() {
            panic!("xq-out-of-range");
        }
        let bits = s.to_bits();
        let half = 1u64 << 36;
        q(f64::from_bits((bits + half) & !((1u64 << 37) - 1)))
    }
    /// quotient rounded to 16 significant bits: every value of the type is a short dyadic number, so products and
    /// sums stay exact *and* small
    fn coarse_div(a: &Q, b: &Q) -> Q {
        if b.is_zero() {
            panic!("xq-division-by-zero");
        }
        Xq::coarse(qf(&(a / b)))
    }
}
macro_rules! binop {
    ($Tr:ident, $f:ident, $op:tt) => {
        impl $Tr<Xq> for Xq { type Output = Xq; fn $f(self, r: Xq) -> Xq { Xq(&self.0 $op &r.0) } }
        impl<'a> $Tr<&'a Xq> for Xq { type Output = Xq; fn $f(self, r: &Xq) -> Xq { Xq(&self.0 $op &r.0) } }
        impl<'a> $Tr<Xq> for &'a Xq { type Output = Xq; fn $f(self, r: Xq) -> Xq { Xq(&self.0 $op &r.0) } }
        impl<'a, 'b> $Tr<&'b Xq> for &'a Xq { type Output = Xq; fn $f(self, r: &Xq) -> Xq { Xq(&self.0 $op &r.0) } }
    };
}
binop!(Add, add, +);
binop!(Sub, sub, -);
binop!(Mul, mul, *);
impl Div<Xq> for Xq {
    type Output = Xq;
    fn div(self, r: Xq) -> Xq {
        &self / &r
    }
}
impl<'a> Div<&'a Xq> for Xq {
    type Output = Xq;
    fn div(self, r: &Xq) -> Xq {
        &self / r
    }
}
impl<'a> Div<Xq> for &'a Xq {
    type Output = Xq;
    fn div(self, r: Xq) -> Xq {
        self / &r
    }
}
impl<'a, 'b> Div<&'b Xq> for &'a Xq {
    type Output = Xq;
    fn div(self, r: &Xq) -> Xq {
        Xq(Xq::coarse_div(&self.0, &r.0))
    }
}
impl Neg for Xq {
    type Output = Xq;
    fn neg(self) -> Xq {
        Xq(-self.0)
    }
}
impl<'a> Neg for &'a Xq {
    type Output = Xq;
    fn neg(self) -> Xq {
        Xq(-self.0.clone())
    }
}
impl<'a> AddAssign<&'a Xq> for Xq {
    fn add_assign(&mut self, r: &Xq) {
        self.0 += &r.0;
    }
}
impl<'a> SubAssign<&'a Xq> for Xq {
    fn sub_assign(&mut self, r: &Xq) {
        self.0 -= &r.0;
    }
}
impl<'a> MulAssign<&'a Xq> for Xq {
    fn mul_assign(&mut self, r: &Xq) {
        self.0 *= &r.0;
    }
}
impl MomTropFloat for Xq {
    fn one(&self) -> Self {
        Xq(Q::one())
    }
    fn zero(&self) -> Self {
        Xq(Q::zero())
    }
    fn ln(&self) -> Self {
        panic!("xq-transcendental")
    }
    fn exp(&self) -> Self {
        panic!("xq-transcendental")
    }
    fn cos(&self) -> Self {
        panic!("xq-transcendental")
    }
    fn sin(&self) -> Self {
        panic!("xq-transcendental")
    }
    fn powf(&self, _p: &Self) -> Self {
        panic!("xq-transcendental")
    }
    fn sqrt(&self) -> Self {
        Xq(Xq::coarse_sqrt(&self.0))
    }
    fn from_isize(&self, v: isize) -> Self {
        Xq(Q::from_integer((v as i64).into()))
    }
    fn from_f64(&self, v: f64) -> Self {
        if !v.is_finite() {
            panic!("xq-from-nonfinite");
        }
        Xq(q(v))
    }
    fn inv(&self) -> Self {
        Xq(Xq::coarse_div(&Q::one(), &self.0))
    }
    fn to_f64(&self) -> f64 {
        qf(&self.0)
    }
    fn abs(&self) -> Self {
        Xq(self.0.abs())
    }
    #[allow(non_snake_case)]
    fn PI(&self) -> Self {
        Xq(q(std::f64::consts::PI))
    }
}
