//! Double-double scalar (~106 bits): Dekker/Knuth error-free transformations; exp by argument reduction and
//! Taylor series, ln by Newton on exp, sin/cos by pi/2 reduction and Taylor, powf = exp(y ln x).
use crate::oracle::graph::{q, Q};
use momtrop::float::MomTropFloat;
use std::ops::*;

#[derive(Clone, Copy, Debug, PartialEq)]
pub struct DD {
    pub hi: f64,
    pub lo: f64,
}
#[inline]
fn two_sum(a: f64, b: f64) -> (f64, f64) {
    let s = a + b;
    let bb = s - a;
    (s, (a - (s - bb)) + (b - bb))
}
#[inline]
fn quick_two_sum(a: f64, b: f64) -> (f64, f64) {
    let s = a + b;
    (s, b - (s - a))
}
#[inline]
fn two_prod(a: f64, b: f64) -> (f64, f64) {
    let p = a * b;
    (p, a.mul_add(b, -p))
}
impl DD {
    pub const fn new(hi: f64, lo: f64) -> DD {
        DD { hi, lo }
    }
    pub fn f(x: f64) -> DD {
        DD { hi: x, lo: 0.0 }
    }
    pub const PI: DD = DD::new(3.141592653589793, 1.2246467991473532e-16);
    pub const LN2: DD = DD::new(0.6931471805599453, 2.3190468138462996e-17);
    /// exact rational value
    pub fn q(&self) -> Q {
        q(self.hi) + q(self.lo)
    }
    pub fn is_finite(&self) -> bool {
        self.hi.is_finite() && self.lo.is_finite()
    }
    fn addd(a: DD, b: DD) -> DD {
        let (s, e) = two_sum(a.hi, b.hi);
        if !s.is_finite() {
            return DD::f(s);
        }
        let (t, f) = two_sum(a.lo, b.lo);
        let e = e + t;
        let (s, e) = quick_two_sum(s, e);
        let e = e + f;
        let (s, e) = quick_two_sum(s, e);
        DD { hi: s, lo: e }
    }
    fn negd(a: DD) -> DD {
        DD { hi: -a.hi, lo: -a.lo }
    }
    fn muld(a: DD, b: DD) -> DD {
        let (p, e) = two_prod(a.hi, b.hi);
        if !p.is_finite() {
            return DD::f(p);
        }
        let e = e + (a.hi * b.lo + a.lo * b.hi);
        let (s, e) = quick_two_sum(p, e);
        DD { hi: s, lo: e }
    }
    fn divd(a: DD, b: DD) -> DD {
        if !(a.hi.is_finite() && b.hi.is_finite()) || b.hi == 0.0 {
            return DD::f(a.hi / b.hi);
        }
        let q1 = a.hi / b.hi;
        let r = DD::addd(a, DD::negd(DD::muld(b, DD::f(q1))));
        let q2 = r.hi / b.hi;
        let r = DD::addd(r, DD::negd(DD::muld(b, DD::f(q2))));
        let q3 = r.hi / b.hi;
        let (s, e) = quick_two_sum(q1, q2);
        DD::addd(DD { hi: s, lo: e }, DD::f(q3))
    }
    pub fn sqrtd(a: DD) -> DD {
        if a.hi <= 0.0 || !a.hi.is_finite() {
            return DD::f(a.hi.sqrt());
        }
        let x = 1.0 / a.hi.sqrt();
        let ax = a.hi * x;
        let d = DD::addd(a, DD::negd(DD::muld(DD::f(ax), DD::f(ax))));
        DD::addd(DD::f(ax), DD::f(d.hi * x * 0.5))
    }
    pub fn ldexp(a: DD, k: i32) -> DD {
        let s = 2f64.powi(k);
        DD { hi: a.hi * s, lo: a.lo * s }
    }
    pub fn expd(a: DD) -> DD {
        if a.hi.is_nan() {
            return a;
        }
        if a.hi > 709.0 {
            return DD::f(f64::INFINITY);
        }
        if a.hi < -745.0 {
            return DD::f(0.0);
        }
        let k = (a.hi / DD::LN2.hi).round();
        let r = DD::addd(a, DD::negd(DD::muld(DD::LN2, DD::f(k))));
        let r = DD::ldexp(r, -9);
        let mut term = r;
        let mut sum = r;
        for n in 2..20 {
            term = DD::divd(DD::muld(term, r), DD::f(n as f64));
            sum = DD::addd(sum, term);
            if term.hi.abs() < 1e-40 {
                break;
            }
        }
        let mut p = sum;
        for _ in 0..9 {
            p = DD::addd(DD::ldexp(p, 1), DD::muld(p, p));
        }
        let res = DD::addd(p, DD::f(1.0));
        let k = k as i32;
        let h = k / 2;
        DD::ldexp(DD::ldexp(res, h), k - h)
    }
    pub fn lnd(a: DD) -> DD {
        if !(a.hi > 0.0) || !a.hi.is_finite() {
            return DD::f(a.hi.ln());
        }
        let mut x = DD::f(a.hi.ln());
        for _ in 0..2 {
            let e = DD::expd(DD::negd(x));
            x = DD::addd(x, DD::addd(DD::muld(a, e), DD::f(-1.0)));
        }
        x
    }
    fn sincos_taylor(r: DD) -> (DD, DD) {
        let r2 = DD::muld(r, r);
        let mut s = r;
        let mut term = r;
        let mut n = 1.0;
        loop {
            term = DD::negd(DD::divd(DD::muld(term, r2), DD::f((n + 1.0) * (n + 2.0))));
            s = DD::addd(s, term);
            n += 2.0;
            if term.hi.abs() < 1e-40 || n > 60.0 {
                break;
            }
        }
        let mut c = DD::f(1.0);
        let mut term = DD::f(1.0);
        let mut n = 0.0;
        loop {
            term = DD::negd(DD::divd(DD::muld(term, r2), DD::f((n + 1.0) * (n + 2.0))));
            c = DD::addd(c, term);
            n += 2.0;
            if term.hi.abs() < 1e-40 || n > 60.0 {
                break;
            }
        }
        (s, c)
    }
    pub fn sincosd(a: DD) -> (DD, DD) {
        if !a.hi.is_finite() {
            return (DD::f(f64::NAN), DD::f(f64::NAN));
        }
        let half_pi = DD::ldexp(DD::PI, -1);
        let k = (a.hi / half_pi.hi).round();
        let r = DD::addd(a, DD::negd(DD::muld(half_pi, DD::f(k))));
        let (s, c) = DD::sincos_taylor(r);
        match (k as i64).rem_euclid(4) {
            0 => (s, c),
            1 => (c, DD::negd(s)),
            2 => (DD::negd(s), DD::negd(c)),
            _ => (DD::negd(c), s),
        }
    }
}
macro_rules! binop {
    ($Tr:ident, $f:ident, $g:expr) => {
        impl $Tr<DD> for DD { type Output = DD; fn $f(self, r: DD) -> DD { $g(self, r) } }
        impl<'a> $Tr<&'a DD> for DD { type Output = DD; fn $f(self, r: &DD) -> DD { $g(self, *r) } }
        impl<'a> $Tr<DD> for &'a DD { type Output = DD; fn $f(self, r: DD) -> DD { $g(*self, r) } }
        impl<'a, 'b> $Tr<&'b DD> for &'a DD { type Output = DD; fn $f(self, r: &DD) -> DD { $g(*self, *r) } }
    };
}
binop!(Add, add, DD::addd);
binop!(Sub, sub, |a, b| DD::addd(a, DD::negd(b)));
binop!(Mul, mul, DD::muld);
binop!(Div, div, DD::divd);
impl Neg for DD {
    type Output = DD;
    fn neg(self) -> DD {
        DD::negd(self)
    }
}
impl<'a> Neg for &'a DD {
    type Output = DD;
    fn neg(self) -> DD {
        DD::negd(*self)
    }
}
impl<'a> AddAssign<&'a DD> for DD {
    fn add_assign(&mut self, r: &DD) {
        *self = DD::addd(*self, *r);
    }
}
impl<'a> SubAssign<&'a DD> for DD {
    fn sub_assign(&mut self, r: &DD) {
        *self = DD::addd(*self, DD::negd(*r));
    }
}
impl<'a> MulAssign<&'a DD> for DD {
    fn mul_assign(&mut self, r: &DD) {
        *self = DD::muld(*self, *r);
    }
}
impl PartialOrd for DD {
    fn partial_cmp(&self, o: &DD) -> Option<std::cmp::Ordering> {
        match self.hi.partial_cmp(&o.hi) {
            Some(std::cmp::Ordering::Equal) => self.lo.partial_cmp(&o.lo),
            x => x,
        }
    }
}
impl MomTropFloat for DD {
    fn one(&self) -> Self {
        DD::f(1.0)
    }
    fn zero(&self) -> Self {
        DD::f(0.0)
    }
    fn ln(&self) -> Self {
        DD::lnd(*self)
    }
    fn exp(&self) -> Self {
        DD::expd(*self)
    }
    fn cos(&self) -> Self {
        DD::sincosd(*self).1
    }
    fn sin(&self) -> Self {
        DD::sincosd(*self).0
    }
    fn powf(&self, p: &Self) -> Self {
        if self.hi == 0.0 {
            return if p.hi > 0.0 {
                DD::f(0.0)
            } else if p.hi == 0.0 {
                DD::f(1.0)
            } else {
                DD::f(f64::INFINITY)
            };
        }
        DD::expd(DD::muld(*p, DD::lnd(*self)))
    }
    fn sqrt(&self) -> Self {
        DD::sqrtd(*self)
    }
    fn from_isize(&self, v: isize) -> Self {
        DD::f(v as f64)
    }
    fn from_f64(&self, v: f64) -> Self {
        DD::f(v)
    }
    fn inv(&self) -> Self {
        DD::divd(DD::f(1.0), *self)
    }
    fn to_f64(&self) -> f64 {
        self.hi + self.lo
    }
    fn abs(&self) -> Self {
        if self.hi < 0.0 {
            DD::negd(*self)
        } else {
            *self
        }
    }
    #[allow(non_snake_case)]
    fn PI(&self) -> Self {
        DD::PI
    }
}
