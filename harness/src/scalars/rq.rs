//! Exact rational user scalar ("Rq"): + - * / and comparisons are exact (BigRational), the transcendental functions
//! and sqrt go through f64. Pushed through the sampler it makes the *edge selection* an exact computation - the
//! cumulative sums J(g\e)/(J(g) omega(g\e)) are formed from f64 table constants with + and / only - so that C06 can be
//! decided without any tolerance, including exact ties u == C_k, whatever the order in which the code evaluates the
//! quotients. Very long numbers (far beyond anything the edge selection can produce) are rounded to keep the later
//! matrix stage affordable; a non-finite f64 intermediate panics with an "rq-" message (the case is then skipped).
use crate::oracle::graph::{q, qf, Q};
use momtrop::float::MomTropFloat;
use num::{One, Signed, Zero};
use std::ops::*;

#[derive(Clone, Debug, PartialEq, PartialOrd)]
pub struct Rq(pub Q);

/// numbers longer than this many bits are rounded to ROUND_TO significant bits (the edge selection stays far below:
/// a quotient of three f64 constants has < 3300 bits only for subnormal constants, < 400 otherwise)
const CAP_BITS: u64 = 12_000;
const ROUND_TO: u64 = 256;

fn cap(v: Q) -> Q {
    let nb = v.numer().bits();
    let db = v.denom().bits();
    if nb.max(db) <= CAP_BITS {
        return v;
    }
    // round numerator/denominator to a dyadic number with ROUND_TO significant bits
    let shift_n = nb.saturating_sub(ROUND_TO + 64);
    let shift_d = db.saturating_sub(ROUND_TO + 64);
    let n = v.numer() >> (shift_n as usize);
    let d = v.denom() >> (shift_d as usize);
    if d.is_zero() {
        panic!("rq-cap-degenerate");
    }
    let r = Q::new(n, d);
    let two = Q::from_integer(2.into());
    if shift_n >= shift_d {
        r * num::pow(two, (shift_n - shift_d) as usize)
    } else {
        r / num::pow(two, (shift_d - shift_n) as usize)
    }
}
fn lift(x: f64, what: &str) -> Q {
    if !x.is_finite() {
        panic!("rq-nonfinite-{what}");
    }
    q(x)
}
impl Rq {
    pub fn f(x: f64) -> Rq {
        Rq(lift(x, "input"))
    }
}
macro_rules! binop {
    ($Tr:ident, $f:ident, $op:tt) => {
        impl $Tr<Rq> for Rq { type Output = Rq; fn $f(self, r: Rq) -> Rq { Rq(cap(&self.0 $op &r.0)) } }
        impl<'a> $Tr<&'a Rq> for Rq { type Output = Rq; fn $f(self, r: &Rq) -> Rq { Rq(cap(&self.0 $op &r.0)) } }
        impl<'a> $Tr<Rq> for &'a Rq { type Output = Rq; fn $f(self, r: Rq) -> Rq { Rq(cap(&self.0 $op &r.0)) } }
        impl<'a, 'b> $Tr<&'b Rq> for &'a Rq { type Output = Rq; fn $f(self, r: &Rq) -> Rq { Rq(cap(&self.0 $op &r.0)) } }
    };
}
binop!(Add, add, +);
binop!(Sub, sub, -);
binop!(Mul, mul, *);
fn divq(a: &Q, b: &Q) -> Q {
    if b.is_zero() {
        panic!("rq-division-by-zero");
    }
    cap(a / b)
}
impl Div<Rq> for Rq {
    type Output = Rq;
    fn div(self, r: Rq) -> Rq {
        Rq(divq(&self.0, &r.0))
    }
}
impl<'a> Div<&'a Rq> for Rq {
    type Output = Rq;
    fn div(self, r: &Rq) -> Rq {
        Rq(divq(&self.0, &r.0))
    }
}
impl<'a> Div<Rq> for &'a Rq {
    type Output = Rq;
    fn div(self, r: Rq) -> Rq {
        Rq(divq(&self.0, &r.0))
    }
}
impl<'a, 'b> Div<&'b Rq> for &'a Rq {
    type Output = Rq;
    fn div(self, r: &Rq) -> Rq {
        Rq(divq(&self.0, &r.0))
    }
}
impl Neg for Rq {
    type Output = Rq;
    fn neg(self) -> Rq {
        Rq(-self.0)
    }
}
impl<'a> Neg for &'a Rq {
    type Output = Rq;
    fn neg(self) -> Rq {
        Rq(-self.0.clone())
    }
}
impl<'a> AddAssign<&'a Rq> for Rq {
    fn add_assign(&mut self, r: &Rq) {
        self.0 = cap(&self.0 + &r.0);
    }
}
impl<'a> SubAssign<&'a Rq> for Rq {
    fn sub_assign(&mut self, r: &Rq) {
        self.0 = cap(&self.0 - &r.0);
    }
}
impl<'a> MulAssign<&'a Rq> for Rq {
    fn mul_assign(&mut self, r: &Rq) {
        self.0 = cap(&self.0 * &r.0);
    }
}
impl MomTropFloat for Rq {
    fn one(&self) -> Self {
        Rq(Q::one())
    }
    fn zero(&self) -> Self {
        Rq(Q::zero())
    }
    fn ln(&self) -> Self {
        Rq(lift(qf(&self.0).ln(), "ln"))
    }
    fn exp(&self) -> Self {
        Rq(lift(qf(&self.0).exp(), "exp"))
    }
    fn cos(&self) -> Self {
        Rq(lift(qf(&self.0).cos(), "cos"))
    }
    fn sin(&self) -> Self {
        Rq(lift(qf(&self.0).sin(), "sin"))
    }
    fn powf(&self, p: &Self) -> Self {
        Rq(lift(qf(&self.0).powf(qf(&p.0)), "powf"))
    }
    fn sqrt(&self) -> Self {
        Rq(lift(qf(&self.0).sqrt(), "sqrt"))
    }
    fn from_isize(&self, v: isize) -> Self {
        Rq(Q::from_integer((v as i64).into()))
    }
    fn from_f64(&self, v: f64) -> Self {
        Rq(lift(v, "from_f64"))
    }
    fn inv(&self) -> Self {
        Rq(divq(&Q::one(), &self.0))
    }
    fn to_f64(&self) -> f64 {
        qf(&self.0)
    }
    fn abs(&self) -> Self {
        Rq(self.0.abs())
    }
    #[allow(non_snake_case)]
    fn PI(&self) -> Self {
        Rq(q(std::f64::consts::PI))
    }
}
