//! Taint scalar: an f64 that carries the set of inputs it was computed from.
//! bit i (< 112) = x-space coordinate i; USER_MASS / USER_SHIFT = user edge data.
//! Comparisons add to a control-dependence set; `to_f64` is logged; `from_f64` inherits what was
//! narrowed since the previous `from_f64` (so a to_f64/from_f64 round trip keeps its dependencies).
use momtrop::float::MomTropFloat;
use std::cell::RefCell;
use std::ops::*;

pub const USER_MASS: u128 = 1 << 120;
pub const USER_SHIFT: u128 = 1 << 121;
pub const USER: u128 = USER_MASS | USER_SHIFT;

thread_local! {
    static NARROW_LOG: RefCell<Vec<(u128, f64)>> = RefCell::new(vec![]);
    static PENDING: RefCell<u128> = RefCell::new(0);
    static CTRL: RefCell<u128> = RefCell::new(0);
    static FROM_F64: RefCell<Vec<(u128, f64)>> = RefCell::new(vec![]);
}
pub fn reset() {
    NARROW_LOG.with(|l| l.borrow_mut().clear());
    PENDING.with(|p| *p.borrow_mut() = 0);
    CTRL.with(|c| *c.borrow_mut() = 0);
    FROM_F64.with(|l| l.borrow_mut().clear());
}
pub fn narrow_log() -> Vec<(u128, f64)> {
    NARROW_LOG.with(|l| l.borrow().clone())
}
pub fn ctrl() -> u128 {
    CTRL.with(|c| *c.borrow())
}
/// every from_f64 call that inherited a non-empty dependency set
pub fn tainted_widenings() -> Vec<(u128, f64)> {
    FROM_F64.with(|l| l.borrow().clone())
}

#[derive(Clone, Debug)]
pub struct Tr {
    pub v: f64,
    pub d: u128,
}
pub fn t(v: f64, d: u128) -> Tr {
    Tr { v, d }
}

macro_rules! binop {
    ($Tr:ident, $f:ident, $op:tt) => {
        impl $Tr<Tr> for Tr { type Output = Tr; fn $f(self, r: Tr) -> Tr { t(self.v $op r.v, self.d | r.d) } }
        impl<'a> $Tr<&'a Tr> for Tr { type Output = Tr; fn $f(self, r: &Tr) -> Tr { t(self.v $op r.v, self.d | r.d) } }
        impl<'a> $Tr<Tr> for &'a Tr { type Output = Tr; fn $f(self, r: Tr) -> Tr { t(self.v $op r.v, self.d | r.d) } }
        impl<'a, 'b> $Tr<&'b Tr> for &'a Tr { type Output = Tr; fn $f(self, r: &Tr) -> Tr { t(self.v $op r.v, self.d | r.d) } }
    };
}
binop!(Add, add, +);
binop!(Sub, sub, -);
binop!(Mul, mul, *);
binop!(Div, div, /);
impl Neg for Tr {
    type Output = Tr;
    fn neg(self) -> Tr {
        t(-self.v, self.d)
    }
}
impl<'a> Neg for &'a Tr {
    type Output = Tr;
    fn neg(self) -> Tr {
        t(-self.v, self.d)
    }
}
impl<'a> AddAssign<&'a Tr> for Tr {
    fn add_assign(&mut self, r: &Tr) {
        self.v += r.v;
        self.d |= r.d;
    }
}
impl<'a> SubAssign<&'a Tr> for Tr {
    fn sub_assign(&mut self, r: &Tr) {
        self.v -= r.v;
        self.d |= r.d;
    }
}
impl<'a> MulAssign<&'a Tr> for Tr {
    fn mul_assign(&mut self, r: &Tr) {
        self.v *= r.v;
        self.d |= r.d;
    }
}
impl PartialEq for Tr {
    fn eq(&self, o: &Tr) -> bool {
        CTRL.with(|c| *c.borrow_mut() |= self.d | o.d);
        self.v == o.v
    }
}
impl PartialOrd for Tr {
    fn partial_cmp(&self, o: &Tr) -> Option<std::cmp::Ordering> {
        CTRL.with(|c| *c.borrow_mut() |= self.d | o.d);
        self.v.partial_cmp(&o.v)
    }
}
impl MomTropFloat for Tr {
    fn one(&self) -> Self {
        t(1.0, 0)
    }
    fn zero(&self) -> Self {
        t(0.0, 0)
    }
    fn ln(&self) -> Self {
        t(self.v.ln(), self.d)
    }
    fn exp(&self) -> Self {
        t(self.v.exp(), self.d)
    }
    fn cos(&self) -> Self {
        t(self.v.cos(), self.d)
    }
    fn sin(&self) -> Self {
        t(self.v.sin(), self.d)
    }
    fn powf(&self, p: &Self) -> Self {
        t(self.v.powf(p.v), self.d | p.d)
    }
    fn sqrt(&self) -> Self {
        t(self.v.sqrt(), self.d)
    }
    fn from_isize(&self, v: isize) -> Self {
        t(v as f64, 0)
    }
    fn from_f64(&self, v: f64) -> Self {
        let d = PENDING.with(|p| std::mem::take(&mut *p.borrow_mut()));
        if d != 0 {
            FROM_F64.with(|l| l.borrow_mut().push((d, v)));
        }
        t(v, d)
    }
    fn inv(&self) -> Self {
        t(1.0 / self.v, self.d)
    }
    fn to_f64(&self) -> f64 {
        NARROW_LOG.with(|l| l.borrow_mut().push((self.d, self.v)));
        PENDING.with(|p| *p.borrow_mut() |= self.d);
        self.v
    }
    fn abs(&self) -> Self {
        t(self.v.abs(), self.d)
    }
    #[allow(non_snake_case)]
    fn PI(&self) -> Self {
        t(std::f64::consts::PI, 0)
    }
}

pub fn bits_to_vec(d: u128) -> Vec<u32> {
    (0..128).filter(|i| d >> i & 1 == 1).collect()
}
