//! C05 — build_sampler rejects exactly the graphs with a divergent proper subgraph; deterministic; no panic.
use crate::engine::{self, Ctx, Failure, Spec, Tape, Tier};
use crate::fail;
use crate::gen;
use crate::oracle::graph::{qf, G};
use crate::sut::{self, BuildErr};
use crate::with_d;
use serde::{Deserialize, Serialize};
use std::time::Instant;

pub const RULE: &str = "(besides the single graphs described next: families of sibling graphs as in C03 - a base graph, copies differing in exactly one attribute, the base again - built one after the other on one thread, each member checked by the same oracle) cases = arbitrary multigraphs (as C03) with positive finite weights; in half of them one weight is moved so that the omega of a randomly chosen proper subset sits at +-k/64, +-1e-6, 0 or 1e-4. oracle: exact rational omega of every proper non-empty subset: any < -1e-9 => Err required, all > 1e-9 => Ok required with every J finite and > 0, otherwise either; any panic is a violation; the graph is built three times in-process (different hash seeds) and the serialised tables must be byte-identical (thorough: also in a fresh process). non-trivial = E>=3 and the subset with the smallest omega has at least two edges; distinct = distinct graph encodings";

#[derive(Clone, Debug, Serialize, Deserialize)]
pub struct Case {
    pub g: G,
    #[serde(default)]
    pub pushed: Option<(usize, f64)>,
}

pub fn gen_case(t: &mut Tape, tier: Tier) -> Option<Case> {
    let mut g = gen::gen_any_graph(t, tier);
    let pushed = if t.bool() { gen::push_to_boundary(t, &mut g) } else { None };
    if t.chance(0.02) {
        // the far ends of "positive finite": 1e16 .. 1e300 and 1e-16 .. 1e-300 (J = sum of products of 1/omega leaves
        // the f64 range there; recorded as a known finding, see known_findings.json)
        let k = t.range(16, 300) as i32 * if t.bool() { 1 } else { -1 };
        for w in g.weights.iter_mut() {
            *w *= 10f64.powi(k);
            if !(w.is_finite() && *w > 0.0) {
                *w = if k > 0 { 1e300 } else { 1e-300 };
            }
        }
    } else if t.chance(0.06) {
        // weights of very different magnitude (all positive and finite, as the property demands)
        let k = t.range(0, 18) as i32 - 6;
        let ne_ = g.nedges();
        let one = t.below(ne_ + 1);
        for (e, w) in g.weights.iter_mut().enumerate() {
            if one == ne_ || one == e {
                *w *= 10f64.powi(k);
            }
        }
    }
    Some(Case { g, pushed })
}

fn check_d<const D: usize>(c: &Case, ctx: &mut Ctx) -> Result<(), Failure> {
    let g = &c.g;
    let ne = g.nedges();
    let nl = g.num_loops();
    let full = g.full();
    // exact classification
    let mut min_om = f64::INFINITY;
    let mut argmin = 0usize;
    for m in 1..full {
        let o = qf(&g.omega_q(m));
        if o < min_om {
            min_om = o;
            argmin = m;
        }
    }
    // f64 cannot resolve omega better than the rounding of its own sums: widen the property's 1e-9 exclusion band
    // by that rounding (only matters for weights of magnitude >= 1e5)
    let band = 1e-9 + 8.0 * (ne as f64 + 2.0) * f64::EPSILON * (g.wsum_abs() + (nl * D) as f64);
    let must_err = (1..full).any(|m| qf(&g.omega_q(m)) < -band);
    let must_ok = min_om > band; // also true for single-edge graphs (no proper subsets)
    ctx.label(if must_err { "oracle:must-reject" } else if must_ok { "oracle:must-accept" } else { "oracle:boundary(either)" });
    if c.pushed.is_some() {
        ctx.label("weights:pushed-to-boundary");
    }
    let mut sers: Vec<Option<String>> = vec![];
    for round in 0..3 {
        match sut::build::<D>(g, sut::dummy_sig(ne, nl)) {
            Err(BuildErr::Panic(m)) => fail!("build-panic", "build_sampler panicked ({m}) for {g:?}"),
            Err(BuildErr::Rejected(msg)) => {
                if must_ok {
                    fail!("rejected-convergent", "build_sampler returned Err although every proper subset has omega >= {min_om:e} > 1e-9 (round {round}); message: {}; graph {g:?}", engine::truncate(&msg, 200));
                }
                sers.push(None);
            }
            Ok(s) => {
                if must_err {
                    fail!("accepted-divergent", "build_sampler returned Ok although subset {argmin:#b} has omega {min_om:e} < -1e-9; graph {g:?}");
                }
                let tab = match sut::table_of(&s) {
                    Ok(t) => t,
                    Err(e) => fail!("table-unreadable", "{e}"),
                };
                if must_ok {
                    let extreme = g.weights.iter().any(|w| *w > 1e15 || *w < 1e-15);
                    for (m, e) in tab.entries.iter().enumerate() {
                        if !(e.j.is_finite() && e.j > 0.0) {
                            let sig = if extreme { "j-not-finite-positive:weights-beyond-1e+-15" } else { "j-not-finite-positive" };
                            fail!(sig, "accepted graph has J({m:#b})={} for {g:?}", e.j);
                        }
                    }
                }
                sers.push(Some(tab.raw));
            }
        }
    }
    if sers.iter().any(|s| s != &sers[0]) {
        fail!("nondeterministic-build", "three builds of the same graph differ: {:?}", sers.iter().map(|s| s.as_ref().map(|x| x.len())).collect::<Vec<_>>());
    }
    ctx.label(if sers[0].is_some() { "sut:accepted" } else { "sut:rejected" });
    if ne >= 3 && (argmin as u64).count_ones() >= 2 {
        ctx.nontrivial();
    }
    if min_om.abs() < 0.05 {
        ctx.label("min-omega-within-0.05-of-zero");
    }
    Ok(())
}

pub fn check(c: &Case, ctx: &mut Ctx) -> Result<(), Failure> {
    let g = &c.g;
    if g.nedges() == 0 || g.nedges() > 16 || !(1..=6).contains(&g.d) || g.weights.iter().any(|w| !(w.is_finite() && *w > 0.0)) {
        fail!("bad-case", "case outside the property's domain");
    }
    with_d!(g.d, check_d(c, ctx))
}

/// serialised table (or "REJECTED") of a graph, for the cross-process determinism comparison
pub fn table_string(g: &G) -> String {
    fn f<const D: usize>(g: &G) -> String {
        match sut::build::<D>(g, sut::dummy_sig(g.nedges(), g.num_loops())) {
            Ok(s) => sut::table_of(&s).map(|t| t.raw).unwrap_or_else(|e| format!("UNREADABLE {e}")),
            Err(BuildErr::Rejected(_)) => "REJECTED".into(),
            Err(BuildErr::Panic(m)) => format!("PANIC {m}"),
        }
    }
    with_d!(g.d, f(g))
}

pub fn gen_family(t: &mut Tape, tier: Tier) -> Option<super::family::Family> {
    super::family::gen_family(t, tier, 9)
}
pub fn check_soak(s: &super::family::Soak, ctx: &mut Ctx) -> Result<(), Failure> {
    super::family::check_soak(s, ctx, &|g: &G, c: &mut Ctx| check(&Case { g: g.clone(), pushed: None }, c))
}
pub fn check_family(f: &super::family::Family, ctx: &mut Ctx) -> Result<(), Failure> {
    super::family::check_family(f, ctx, &|g: &G, c: &mut Ctx| check(&Case { g: g.clone(), pushed: None }, c))
}
#[derive(Clone, Debug, Serialize, Deserialize)]
#[serde(untagged)]
pub enum Any {
    Soak(super::family::Soak),
    Fam(super::family::Family),
    One(Case),
}
pub fn check_any(c: &Any, ctx: &mut Ctx) -> Result<(), Failure> {
    match c {
        Any::Soak(s) => check_soak(s, ctx),
        Any::Fam(f) => check_family(f, ctx),
        Any::One(g) => check(g, ctx),
    }
}
pub fn run(tier: Tier, seed: u64) -> i32 {
    let t0 = Instant::now();
    let sp = Spec { id: "C05", rule: RULE, tape_len: 180, cases: tier.pick(60_000, 800_000), gen: gen_case, check, max_shrink_iters: 4000, shards: 16 };
    let mut stats = engine::run_spec(&sp, tier, seed);
    let spf = Spec { id: "C05", rule: RULE, tape_len: 220, cases: tier.pick(16_000, 160_000), gen: gen_family, check: check_family, max_shrink_iters: 2000, shards: 16 };
    stats.merge(engine::run_spec(&spf, tier, seed ^ 0xfa5));
    let sps = Spec { id: "C05", rule: RULE, tape_len: 700, cases: tier.pick(32, 96), gen: super::family::gen_soak, check: check_soak, max_shrink_iters: 60, shards: 16 };
    stats.merge(engine::run_spec(&sps, tier, seed ^ 0x50a6));
    engine::run_regressions::<Any>("C05", check_any, &mut stats);
    let extra = crate::props::xproc::cross_process_tables(tier, seed, &mut stats);
    engine::finish("C05", tier, seed, RULE, stats, t0, extra, &["exact rational omega from the reference model", "determinism across hash seeds sampled by repeated in-process builds (ahash RandomState differs per instance) and one fresh process"])
}
pub fn replay(path: &str) -> i32 {
    engine::replay_file::<Any>("C05", path, check_any)
}
