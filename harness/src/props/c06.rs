//! C06 — edge selection inverts the tropical edge distribution and is total on [0,1).
use super::phys::{self, EPS};
use crate::engine::{self, Ctx, Failure, Spec, Tape, Tier};
use crate::fail;
use crate::gen::{self, Phys, ONE_M};
use crate::oracle::graph::{q, qf};
use crate::oracle::path;
use crate::sut::{self, BuildErr, SutErr};
use crate::with_d;
use num::Signed;
use std::time::Instant;

pub const RULE: &str = "cases = accepted connected graphs (both sub-classes: all omega>=0.15 and omega down to 1/64), every xi_j = 2^(-omega(g_j)) so that the logged unrescaled parameters are 1, 1/2, 1/4, ... and the j-th removed edge can be read off the log; every edge-choice coordinate u_j drawn from a boundary-heavy class list (interior of a chosen edge's interval, +-3 ulp around a cumulative boundary, 0, 2^-53, 1-2^-53, 1-2^-52, subnormal, uniform). oracle at EVERY step of the walk (following the sampler's own path): exact rational cumulative sums C_k of J(g\\e)/(J(g) omega(g\\e)) from the reference J; expected edge = first k with C_k >= u, neighbours accepted if |u-C_k| <= 64 E eps, u above the last C_k => last edge; the single remaining edge is removed without a coordinate; any panic is a violation. exact route: the sampler is run with an exact rational user scalar (+ - * / and comparisons exact, transcendental functions through f64) on small graphs, one edge-choice coordinate being the exact rational boundary C_k itself (tie: edge k must be removed) or C_k(1 +- 2^-e), 60 <= e <= 400, boundaries formed exactly from the f64 constants of the sampler's own table; decided without tolerance, the removed edges are read off the L matrix. non-trivial = some u within 4 ulp of a cumulative boundary or of 1, or a subgraph with >=3 edges reached after >=1 removal; distinct = distinct case encodings";

pub fn gen_case(t: &mut Tape, tier: Tier) -> Option<Phys> {
    let mo = if t.bool() { 1.0 / 64.0 } else { 0.15 };
    if t.chance(0.12) {
        // accepted disconnected graph: physical component + massive vacuum component (edges scattered in index order)
        let prof = gen::PointProfile { u_w: [0.15, 0.3, 0.3, 0.25], xi_w: [0.0, 1.0, 0.0, 0.0], lambda_tail: 0.0, bm_extreme: 0.0 };
        return gen::gen_phys_union(t, &gen::PhysOpts { max_e: tier.pick(8, 9), max_l: 6, min_omega: mo, dmax: 6, max_ops: 1, profile: prof });
    }
    let g = gen::gen_phys_graph(t, tier.pick(8, 9), 8, mo, 6)?;
    if g.nedges() < 2 {
        return None;
    }
    let mut g = g;
    if g.massive.iter().all(|&m| m) && t.chance(0.35) {
        // large propagator powers: J becomes tiny (1e-3 .. 1e-12), probabilities stay O(1/E)
        let f = t.uniform(2.0, 7.0);
        let w2: Vec<f64> = g.weights.iter().map(|w| ((w * f) * 64.0).round() / 64.0).collect();
        let old = std::mem::replace(&mut g.weights, w2);
        // keep the overall degree of divergence inside the Gamma routine's documented shape range (C12: a <= 100)
        if !(g.min_proper_omega() > 0.0 && g.dod() > 0.0 && g.dod() <= 90.0) {
            g.weights = old;
        }
    }
    if !t.chance(0.92) && g.externals.len() >= 2 {
        // exactly one external vertex (no momentum flows; the edge-selection oracle only needs the table): the weights
        // are kept, so the sampler may now reject the graph, which is labelled and skipped
        g.externals.truncate(1);
        if !g.accepted_f64() {
            return None;
        }
    }
    let kin = gen::gen_kin(t, &g, 1);
    let prof = gen::PointProfile { u_w: [0.15, 0.3, 0.3, 0.25], xi_w: [0.0, 1.0, 0.0, 0.0], lambda_tail: 0.0, bm_extreme: 0.0 };
    let (x, classes) = gen::gen_point(t, &g, &prof);
    Some(Phys { g, kin, x, classes: classes.into_iter().map(String::from).collect() })
}

fn check_d<const D: usize>(c: &Phys, ctx: &mut Ctx) -> Result<(), Failure> {
    phys::classes_label(c, ctx);
    let (ne, _nl) = phys::validate_opt(c, true)?;
    let g = &c.g;
    if ne < 2 {
        fail!("bad-case", "C06 needs at least two edges");
    }
    let s = match sut::build::<D>(g, c.kin.sig.clone()) {
        Ok(s) => {
            // every fourth case walks a sampler that went through a serde round trip (same table, same walk)
            let h = c.x.iter().fold(0u64, |a, v| a.wrapping_mul(31).wrapping_add(v.to_bits()));
            if h % 4 == 0 {
                ctx.label("sampler:restored-from-json");
                match serde_json::to_string(&s).ok().and_then(|t| serde_json::from_str(&t).ok()) {
                    Some(r) => r,
                    None => s,
                }
            } else {
                s
            }
        }
        Err(BuildErr::Rejected(_)) => {
            ctx.label("skip:sut-rejected-graph");
            return Ok(());
        }
        Err(BuildErr::Panic(_)) => {
            ctx.label("skip:build-panic");
            return Ok(());
        }
    };
    let reft = g.table_f64();
    let omega: Vec<f64> = reft.iter().map(|e| e.2).collect();
    let j = g.j_f64(&omega);
    let ed = sut::edge_data::<D>(&g.massive, &c.kin.masses, &c.kin.shifts);
    let out = match sut::sample_f64(&s, &c.x, ed, None, true, false) {
        Ok(o) => o,
        Err(SutErr::Panic(m)) => {
            let us: Vec<f64> = (0..ne - 1).map(|k| c.x[2 * k]).collect();
            let sig = if m.contains("could not sample edge") { "edge-selection-panic" } else { "sample-panic" };
            fail!(sig, "sampling panicked: {m}; edge-choice coordinates u = {us:?}; case {c:?}");
        }
        Err(_) => {
            // the log is written before the matrix / gamma stage; without a result we cannot read it here
            ctx.label("skip:sample-error-after-edge-selection");
            return Ok(());
        }
    };
    let log = out.log.unwrap_or_default();
    if log.x0.len() != ne {
        ctx.label("skip:debug-log-incomplete");
        return Ok(());
    }
    // removal order from the log: x0 = 1, ~1/2, ~1/4, ...
    let mut order: Vec<usize> = (0..ne).collect();
    order.sort_by(|&a, &b| log.x0[b].partial_cmp(&log.x0[a]).unwrap_or(std::cmp::Ordering::Equal));
    for (k, &e) in order.iter().enumerate() {
        let want = 0.5f64.powi(k as i32);
        if !((log.x0[e] - want).abs() <= 1e-9 * want) {
            // xi_j = 2^(-omega(g_j)) was chosen along the walk the ORACLE predicts; if no edge choice of that walk is
            // within rounding distance of a boundary the sampler must follow the same walk and the parameters must be
            // 1, 1/2, 1/4, ... (every omega >= 1/64 here). Anything else means the walk or the stored omegas are corrupted.
            let sim = path::simulate(ne, &omega, &j, &c.x, 64.0 * ne as f64 * EPS);
            let min_om = omega.iter().skip(1).take(g.full() - 1).cloned().fold(f64::INFINITY, f64::min);
            if sim.min_gap > 256.0 * ne as f64 * EPS && min_om >= 1e-6 {
                fail!("sector-walk-corrupted", "with xi_j = 2^(-omega_j) along the unambiguous walk {:?} the unrescaled parameters must be 1, 1/2, 1/4, ... but the log shows {:?}; case {c:?}", sim.order, log.x0);
            }
            ctx.label("skip:walk-differs-from-prediction(edge choice within rounding distance of a boundary)");
            return Ok(());
        }
    }
    let tol = 64.0 * ne as f64 * EPS;
    let mut sub = g.full();
    let mut near = false;
    let mut deep = false;
    for step in 0..ne {
        let got = order[step];
        if sub >> got & 1 == 0 {
            fail!("removed-edge-not-in-subgraph", "step {step}: edge {got} removed twice (order {order:?})");
        }
        let nedges = (sub as u64).count_ones() as usize;
        if nedges >= 2 {
            let u = c.x[2 * step];
            let cp = path::cum_exact(ne, sub, &omega, &j);
            let uq = q(u);
            let expected = cp.iter().find(|(_, cq)| cq >= &uq).map(|(e, _)| *e).unwrap_or(cp.last().unwrap().0);
            let mut acceptable = vec![expected];
            for (i, (e, cq)) in cp.iter().enumerate() {
                let d = qf(&(cq - &uq).abs());
                if d <= tol {
                    acceptable.push(*e);
                    if i + 1 < cp.len() {
                        acceptable.push(cp[i + 1].0);
                    }
                }
                if d <= 4.0 * EPS {
                    near = true;
                }
            }
            if u >= 1.0 - 4.0 * EPS {
                near = true;
            }
            if step >= 1 && nedges >= 3 {
                deep = true;
            }
            if !acceptable.contains(&got) {
                let cps: Vec<(usize, f64)> = cp.iter().map(|(e, cq)| (*e, qf(cq))).collect();
                fail!("wrong-edge", "step {step}, subgraph {sub:#b}, u={u:e}: sampler removed edge {got} but the running sum first reaches u at edge {expected} (cumulative sums {cps:?}); case {c:?}");
            }
            ctx.count("selection_steps_checked", 1);
        } else {
            // last edge: removed without consuming a coordinate (its parameter is 2^-(E-1), the gamma coordinate follows)
            if sub != 1 << got {
                fail!("last-edge", "last step removed edge {got} from subgraph {sub:#b}");
            }
        }
        sub ^= 1 << got;
    }
    if near {
        ctx.label("u-within-4ulp-of-boundary-or-1");
    }
    if near || deep {
        ctx.nontrivial();
    }
    Ok(())
}
pub fn check(c: &Phys, ctx: &mut Ctx) -> Result<(), Failure> {
    phys::validate_opt(c, true)?;
    with_d!(c.g.d, check_d(c, ctx))
}

// ------------------------------------------------------------------ exact route (rational user scalar)
/// The edge selection decided *without tolerance*: the sampler is run with the exact rational user scalar `Rq`, one
/// edge-choice coordinate is the exact rational cumulative boundary C_k itself (a tie: the running sum *reaches* u at
/// edge k, so edge k must go), or C_k (1 +- 2^-e) with e up to 400. The boundaries are formed in exact arithmetic from
/// the f64 constants of the sampler's own table, which is all the selection may use; in exact arithmetic every
/// order of evaluating J(g\e)/(J(g) omega(g\e)) and of accumulating the running sum gives the same number.
#[derive(Clone, Debug, serde::Serialize, serde::Deserialize)]
pub struct XCase {
    pub p: Phys,
    pub step: usize,
    pub bidx: usize,
    /// 0 = tie, 1 = just above the boundary, 2 = just below
    pub mode: u8,
    /// relative distance 2^-epow for modes 1 and 2
    pub epow: u32,
}
pub fn gen_xcase(t: &mut Tape, tier: Tier) -> Option<XCase> {
    let g = gen::gen_phys_graph(t, tier.pick(6, 7), 3, 0.15, 4)?;
    if g.nedges() < 2 {
        return None;
    }
    let kin = gen::gen_kin_unit(t, &g, 1);
    let prof = gen::PointProfile { u_w: [0.6, 0.4, 0.0, 0.0], xi_w: [0.0, 0.0, 1.0, 0.0], lambda_tail: 0.0, bm_extreme: 0.0 };
    let (x, classes) = gen::gen_point(t, &g, &prof);
    let step = t.below(g.nedges() - 1);
    let bidx = t.below(8);
    let mode = t.weighted(&[0.5, 0.25, 0.25]) as u8;
    let epow = t.range(60, 400) as u32;
    Some(XCase { p: Phys { g, kin, x, classes: classes.into_iter().map(String::from).collect() }, step, bidx, mode, epow })
}
fn xcheck_d<const D: usize>(c: &XCase, ctx: &mut Ctx) -> Result<(), Failure> {
    use crate::oracle::graph::Q;
    use crate::scalars::rq::Rq;
    use momtrop::vector::Vector;
    use num::{One, Zero};
    let p = &c.p;
    let g = &p.g;
    let (ne, nl) = (g.nedges(), g.num_loops());
    let s = match sut::build::<D>(g, p.kin.sig.clone()) {
        Ok(s) => s,
        Err(_) => {
            ctx.label("skip:not-built");
            return Ok(());
        }
    };
    let tab = sut::table_of(&s).map_err(|e| Failure::new("table-unreadable", e))?;
    let omega: Vec<f64> = tab.entries.iter().map(|e| e.omega).collect();
    let jt: Vec<f64> = tab.entries.iter().map(|e| e.j).collect();
    if omega[..omega.len() - 1].iter().chain(jt.iter()).any(|v| !(v.is_finite() && *v > 0.0)) {
        ctx.label("exact:skip-table-not-positive");
        return Ok(());
    }
    let target_step = c.step % (ne - 1);
    let mut xr: Vec<Rq> = p.x.iter().map(|&v| Rq::f(v)).collect();
    let mut sub = g.full();
    let mut order = vec![];
    let mut info = None;
    for step in 0..ne {
        if (sub as u64).count_ones() == 1 {
            order.push(sub.trailing_zeros() as usize);
            break;
        }
        let cp = path::cum_exact(ne, sub, &omega, &jt);
        let uq: Q = if step == target_step {
            let k = c.bidx % (cp.len() - 1);
            let cq = cp[k].1.clone();
            let eps = Q::one() / num::pow(Q::from_integer(2.into()), c.epow as usize);
            let u = match c.mode {
                0 => cq.clone(),
                1 => &cq * (Q::one() + eps),
                _ => &cq * (Q::one() - eps),
            };
            if !(u >= Q::zero() && u < Q::one()) {
                ctx.label("exact:skip-boundary-not-in-[0,1)");
                return Ok(());
            }
            xr[2 * step] = Rq(u.clone());
            info = Some((k, qf(&cq)));
            u
        } else {
            q(p.x[2 * step])
        };
        let e = cp.iter().find(|(_, cq)| *cq >= uq).map(|(e, _)| *e).unwrap_or(cp.last().unwrap().0);
        order.push(e);
        sub ^= 1 << e;
    }
    let Some((k, ck)) = info else {
        ctx.label("exact:skip-step-not-reached");
        return Ok(());
    };
    // f64 sector formula along the exact walk
    let mut kappa = 1.0f64;
    let mut x0 = vec![1.0f64; ne];
    let (mut ut, mut vt) = (1.0f64, 1.0f64);
    let mut sub = g.full();
    let mut sens = 0.0f64;
    for (step, &e) in order.iter().enumerate() {
        x0[e] = kappa;
        let nxt = sub ^ (1 << e);
        if tab.entries[sub].spanning && !tab.entries[nxt].spanning {
            vt = x0[e];
        }
        if tab.entries[nxt].loops < tab.entries[sub].loops {
            ut *= x0[e];
        }
        sub = nxt;
        if sub != 0 {
            let xi = p.x[2 * step + 1];
            kappa *= xi.powf(1.0 / omega[sub]);
            sens += xi.ln().abs() / omega[sub];
        }
    }
    let dh = D as f64 / 2.0;
    let xit = ut * vt;
    let target = ut.powf(-dh) * (ut / xit).powf(tab.dod);
    let scaling = target.powf(1.0 / (dh * nl as f64 + tab.dod));
    let xs: Vec<f64> = x0.iter().map(|x| x * scaling).collect();
    if !xs.iter().all(|x| x.is_finite() && *x > 1e-100 && *x < 1e100) || sens > 200.0 {
        ctx.label("exact:skip-magnitude");
        return Ok(());
    }
    let amp = 1.0 + sens + target.ln().abs();
    let ed: Vec<(Option<Rq>, Vector<Rq, D>)> = (0..ne).map(|e| (if g.massive[e] { Some(Rq::f(p.kin.masses[e])) } else { None }, Vector::from_array(std::array::from_fn(|i| Rq::f(p.kin.shifts[e][i]))))).collect();
    let st = sut::settings(None, false, true);
    let r = match std::panic::catch_unwind(std::panic::AssertUnwindSafe(|| s.generate_sample_from_x_space_point(&xr, ed, &st, &sut::NoLog))) {
        Ok(Ok(r)) => r,
        Ok(Err(_)) => {
            ctx.label("exact:skip-sample-error");
            return Ok(());
        }
        Err(_) => {
            let m = engine::take_panic();
            if m.contains("rq-") {
                ctx.label("exact:skip-scalar-domain");
                return Ok(());
            }
            let sig = if m.contains("could not sample edge") { "edge-selection-panic" } else { "sample-panic" };
            fail!(sig, "sampling with the exact rational scalar panicked: {m}; case {c:?}");
        }
    };
    let Some(md) = r.metadata.as_ref() else { fail!("no-metadata", "no metadata") };
    let what = match c.mode {
        0 => "exactly on".to_string(),
        1 => format!("a relative 2^-{} above", c.epow),
        _ => format!("a relative 2^-{} below", c.epow),
    };
    for i in 0..nl {
        for j in 0..nl {
            let (mut want, mut absum) = (0.0f64, 0.0f64);
            for e in 0..ne {
                let cf = (p.kin.sig[e][i] * p.kin.sig[e][j]) as f64;
                want += xs[e] * cf;
                absum += (xs[e] * cf).abs();
            }
            let got = qf(&md.l_matrix[(i, j)].0);
            let t_ = 1e-9 * amp * absum;
            if !((got - want).abs() <= t_) {
                fail!("exact-edge-choice", "exact rational run with edge-choice coordinate {} {what} the exact cumulative boundary C_{k} = {ck:e} of step {target_step}: the running sum reaches u at the edges of the walk {order:?}, but L[{i}][{j}] = {got:e} instead of {want:e} (another edge was removed); case {c:?}", 2 * target_step);
            }
        }
    }
    ctx.label(match c.mode { 0 => "exact:tie", 1 => "exact:just-above", _ => "exact:just-below" });
    ctx.count("exact_selection_cases", 1);
    if ne >= 3 {
        ctx.nontrivial();
    }
    Ok(())
}
pub fn check_x(c: &XCase, ctx: &mut Ctx) -> Result<(), Failure> {
    phys::validate(&c.p)?;
    if c.p.g.nedges() < 2 || c.mode > 2 || !(8..=1000).contains(&c.epow) {
        fail!("bad-case", "exact route needs >= 2 edges, mode 0..2, 8 <= epow <= 1000");
    }
    with_d!(c.p.g.d, xcheck_d(c, ctx))
}
#[derive(Clone, Debug, serde::Serialize, serde::Deserialize)]
#[serde(untagged)]
pub enum Any {
    Exact(XCase),
    Walk(Phys),
}
pub fn check_any(c: &Any, ctx: &mut Ctx) -> Result<(), Failure> {
    match c {
        Any::Exact(x) => check_x(x, ctx),
        Any::Walk(p) => check(p, ctx),
    }
}
pub fn run(tier: Tier, seed: u64) -> i32 {
    let t0 = Instant::now();
    let sp = Spec { id: "C06", rule: RULE, tape_len: 280, cases: tier.pick(150_000, 1_500_000), gen: gen_case, check, max_shrink_iters: 3000, shards: 16 };
    let mut stats = engine::run_spec(&sp, tier, seed);
    let spx = Spec { id: "C06", rule: RULE, tape_len: 240, cases: tier.pick(12_000, 200_000), gen: gen_xcase, check: check_x, max_shrink_iters: 800, shards: 16 };
    stats.merge(engine::run_spec(&spx, tier, seed ^ 0x0606));
    engine::run_regressions::<Any>("C06", check_any, &mut stats);
    let extra = super::fuzzrun::maybe_fuzz("C06", "edge_select", tier, seed, &mut stats, serde_json::json!({}));
    engine::finish("C06", tier, seed, RULE, stats, t0, extra, &["removal order observed through the crate's debug log (unrescaled parameters 2^-k)", "reference J by own recursion; exact rational cumulative sums", "64*E*eps neighbourhood of a boundary accepts both neighbours"])
}
pub fn replay(path: &str) -> i32 {
    engine::replay_file::<Any>("C06", path, check_any)
}
// keep ONE_M referenced for documentation purposes
#[allow(unused)]
const _U_MAX: f64 = ONE_M;
