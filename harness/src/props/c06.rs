//! C06 — edge selection inverts the tropical edge distribution and is total on [0,1).
use super::phys::{self, EPS};
use crate::engine::{self, Ctx, Failure, Spec, Tape, Tier};
use crate::fail;
use crate::gen::{self, Phys, ONE_M};
use crate::oracle::graph::{q, qf};
use crate::oracle::path;
use crate::sut::{self, BuildErr, SutErr};
use crate::with_d;
use num::Signed;
use std::time::Instant;

pub const RULE: &str = "cases = accepted connected graphs (both sub-classes: all omega>=0.15 and omega down to 1/64), every xi_j = 2^(-omega(g_j)) so that the logged unrescaled parameters are 1, 1/2, 1/4, ... and the j-th removed edge can be read off the log; every edge-choice coordinate u_j drawn from a boundary-heavy class list (interior of a chosen edge's interval, +-3 ulp around a cumulative boundary, 0, 2^-53, 1-2^-53, 1-2^-52, subnormal, uniform). oracle at EVERY step of the walk (following the sampler's own path): exact rational cumulative sums C_k of J(g\\e)/(J(g) omega(g\\e)) from the reference J; expected edge = first k with C_k >= u, neighbours accepted if |u-C_k| <= 64 E eps, u above the last C_k => last edge; the single remaining edge is removed without a coordinate; any panic is a violation. non-trivial = some u within 4 ulp of a cumulative boundary or of 1, or a subgraph with >=3 edges reached after >=1 removal; distinct = distinct case encodings";

pub fn gen_case(t: &mut Tape, tier: Tier) -> Option<Phys> {
    let mo = if t.bool() { 1.0 / 64.0 } else { 0.15 };
    if t.chance(0.12) {
        // accepted disconnected graph: physical component + massive vacuum component (edges scattered in index order)
        let prof = gen::PointProfile { u_w: [0.15, 0.3, 0.3, 0.25], xi_w: [0.0, 1.0, 0.0, 0.0], lambda_tail: 0.0, bm_extreme: 0.0 };
        return gen::gen_phys_union(t, &gen::PhysOpts { max_e: tier.pick(8, 9), max_l: 6, min_omega: mo, dmax: 6, max_ops: 1, profile: prof });
    }
    let g = gen::gen_phys_graph(t, tier.pick(8, 9), 8, mo, 6)?;
    if g.nedges() < 2 {
        return None;
    }
    let mut g = g;
    if g.massive.iter().all(|&m| m) && t.chance(0.35) {
        // large propagator powers: J becomes tiny (1e-3 .. 1e-12), probabilities stay O(1/E)
        let f = t.uniform(2.0, 7.0);
        let w2: Vec<f64> = g.weights.iter().map(|w| ((w * f) * 64.0).round() / 64.0).collect();
        let old = std::mem::replace(&mut g.weights, w2);
        // keep the overall degree of divergence inside the Gamma routine's documented shape range (C12: a <= 100)
        if !(g.min_proper_omega() > 0.0 && g.dod() > 0.0 && g.dod() <= 90.0) {
            g.weights = old;
        }
    }
    let kin = gen::gen_kin(t, &g, 1);
    let prof = gen::PointProfile { u_w: [0.15, 0.3, 0.3, 0.25], xi_w: [0.0, 1.0, 0.0, 0.0], lambda_tail: 0.0, bm_extreme: 0.0 };
    let (x, classes) = gen::gen_point(t, &g, &prof);
    Some(Phys { g, kin, x, classes: classes.into_iter().map(String::from).collect() })
}

fn check_d<const D: usize>(c: &Phys, ctx: &mut Ctx) -> Result<(), Failure> {
    phys::classes_label(c, ctx);
    let (ne, _nl) = phys::validate_opt(c, true)?;
    let g = &c.g;
    if ne < 2 {
        fail!("bad-case", "C06 needs at least two edges");
    }
    let s = match sut::build::<D>(g, c.kin.sig.clone()) {
        Ok(s) => {
            // every fourth case walks a sampler that went through a serde round trip (same table, same walk)
            let h = c.x.iter().fold(0u64, |a, v| a.wrapping_mul(31).wrapping_add(v.to_bits()));
            if h % 4 == 0 {
                ctx.label("sampler:restored-from-json");
                match serde_json::to_string(&s).ok().and_then(|t| serde_json::from_str(&t).ok()) {
                    Some(r) => r,
                    None => s,
                }
            } else {
                s
            }
        }
        Err(BuildErr::Rejected(_)) => {
            ctx.label("skip:sut-rejected-graph");
            return Ok(());
        }
        Err(BuildErr::Panic(_)) => {
            ctx.label("skip:build-panic");
            return Ok(());
        }
    };
    let reft = g.table_f64();
    let omega: Vec<f64> = reft.iter().map(|e| e.2).collect();
    let j = g.j_f64(&omega);
    let ed = sut::edge_data::<D>(&g.massive, &c.kin.masses, &c.kin.shifts);
    let out = match sut::sample_f64(&s, &c.x, ed, None, true, false) {
        Ok(o) => o,
        Err(SutErr::Panic(m)) => {
            let us: Vec<f64> = (0..ne - 1).map(|k| c.x[2 * k]).collect();
            let sig = if m.contains("could not sample edge") { "edge-selection-panic" } else { "sample-panic" };
            fail!(sig, "sampling panicked: {m}; edge-choice coordinates u = {us:?}; case {c:?}");
        }
        Err(_) => {
            // the log is written before the matrix / gamma stage; without a result we cannot read it here
            ctx.label("skip:sample-error-after-edge-selection");
            return Ok(());
        }
    };
    let log = out.log.unwrap_or_default();
    if log.x0.len() != ne {
        ctx.label("skip:debug-log-incomplete");
        return Ok(());
    }
    // removal order from the log: x0 = 1, ~1/2, ~1/4, ...
    let mut order: Vec<usize> = (0..ne).collect();
    order.sort_by(|&a, &b| log.x0[b].partial_cmp(&log.x0[a]).unwrap_or(std::cmp::Ordering::Equal));
    for (k, &e) in order.iter().enumerate() {
        let want = 0.5f64.powi(k as i32);
        if !((log.x0[e] - want).abs() <= 1e-9 * want) {
            // xi_j = 2^(-omega(g_j)) was chosen along the walk the ORACLE predicts; if no edge choice of that walk is
            // within rounding distance of a boundary the sampler must follow the same walk and the parameters must be
            // 1, 1/2, 1/4, ... (every omega >= 1/64 here). Anything else means the walk or the stored omegas are corrupted.
            let sim = path::simulate(ne, &omega, &j, &c.x, 64.0 * ne as f64 * EPS);
            let min_om = omega.iter().skip(1).take(g.full() - 1).cloned().fold(f64::INFINITY, f64::min);
            if sim.min_gap > 256.0 * ne as f64 * EPS && min_om >= 1e-6 {
                fail!("sector-walk-corrupted", "with xi_j = 2^(-omega_j) along the unambiguous walk {:?} the unrescaled parameters must be 1, 1/2, 1/4, ... but the log shows {:?}; case {c:?}", sim.order, log.x0);
            }
            ctx.label("skip:walk-differs-from-prediction(edge choice within rounding distance of a boundary)");
            return Ok(());
        }
    }
    let tol = 64.0 * ne as f64 * EPS;
    let mut sub = g.full();
    let mut near = false;
    let mut deep = false;
    for step in 0..ne {
        let got = order[step];
        if sub >> got & 1 == 0 {
            fail!("removed-edge-not-in-subgraph", "step {step}: edge {got} removed twice (order {order:?})");
        }
        let nedges = (sub as u64).count_ones() as usize;
        if nedges >= 2 {
            let u = c.x[2 * step];
            let cp = path::cum_exact(ne, sub, &omega, &j);
            let uq = q(u);
            let expected = cp.iter().find(|(_, cq)| cq >= &uq).map(|(e, _)| *e).unwrap_or(cp.last().unwrap().0);
            let mut acceptable = vec![expected];
            for (i, (e, cq)) in cp.iter().enumerate() {
                let d = qf(&(cq - &uq).abs());
                if d <= tol {
                    acceptable.push(*e);
                    if i + 1 < cp.len() {
                        acceptable.push(cp[i + 1].0);
                    }
                }
                if d <= 4.0 * EPS {
                    near = true;
                }
            }
            if u >= 1.0 - 4.0 * EPS {
                near = true;
            }
            if step >= 1 && nedges >= 3 {
                deep = true;
            }
            if !acceptable.contains(&got) {
                let cps: Vec<(usize, f64)> = cp.iter().map(|(e, cq)| (*e, qf(cq))).collect();
                fail!("wrong-edge", "step {step}, subgraph {sub:#b}, u={u:e}: sampler removed edge {got} but the running sum first reaches u at edge {expected} (cumulative sums {cps:?}); case {c:?}");
            }
            ctx.count("selection_steps_checked", 1);
        } else {
            // last edge: removed without consuming a coordinate (its parameter is 2^-(E-1), the gamma coordinate follows)
            if sub != 1 << got {
                fail!("last-edge", "last step removed edge {got} from subgraph {sub:#b}");
            }
        }
        sub ^= 1 << got;
    }
    if near {
        ctx.label("u-within-4ulp-of-boundary-or-1");
    }
    if near || deep {
        ctx.nontrivial();
    }
    Ok(())
}
pub fn check(c: &Phys, ctx: &mut Ctx) -> Result<(), Failure> {
    phys::validate_opt(c, true)?;
    with_d!(c.g.d, check_d(c, ctx))
}
pub fn run(tier: Tier, seed: u64) -> i32 {
    let t0 = Instant::now();
    let sp = Spec { id: "C06", rule: RULE, tape_len: 280, cases: tier.pick(150_000, 1_500_000), gen: gen_case, check, max_shrink_iters: 3000, shards: 16 };
    let mut stats = engine::run_spec(&sp, tier, seed);
    engine::run_regressions::<Phys>("C06", check, &mut stats);
    let extra = super::fuzzrun::maybe_fuzz("C06", "edge_select", tier, seed, &mut stats, serde_json::json!({}));
    engine::finish("C06", tier, seed, RULE, stats, t0, extra, &["removal order observed through the crate's debug log (unrescaled parameters 2^-k)", "reference J by own recursion; exact rational cumulative sums", "64*E*eps neighbourhood of a boundary accepts both neighbours"])
}
pub fn replay(path: &str) -> i32 {
    engine::replay_file::<Phys>("C06", path, check)
}
// keep ONE_M referenced for documentation purposes
#[allow(unused)]
const _U_MAX: f64 = ONE_M;
