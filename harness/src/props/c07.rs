//! C07 — Feynman parameters follow the sector formula; tropical polynomials and the rescaling.
use super::phys::{self, rel, Eval, EPS};
use crate::engine::{self, Ctx, Failure, Spec, Tape, Tier};
use crate::fail;
use crate::gen::{self, Phys, PhysOpts};
use crate::with_d;
use std::time::Instant;

pub const RULE: &str = "cases = accepted connected graphs (G-phys), structured points whose edge-choice coordinates are >=1e-9 away from every cumulative boundary (decided by exact rational sums; the others are counted as excluded), xi classes uniform/halving/moderate/tiny. oracle: removal order simulated with the reference J; predicted unrescaled parameters prod_{j<k} xi_j^(1/omega(g_j)) against the logged ones; logged u_trop/v_trop against the brute-force largest monomial of U and of F/U at those parameters; rescaled parameters are a common multiple of the unrescaled ones and U_tr^(D/2) V_tr^dod = 1 at the rescaled parameters. non-trivial = (L>=2 or mixed masses) and the removal order is not the identity; distinct = distinct case encodings";

pub fn gen_case(t: &mut Tape, tier: Tier) -> Option<Phys> {
    let mo = if t.chance(0.4) { 1.0 / 64.0 } else { 0.15 };
    gen::gen_phys(t, &PhysOpts { max_e: tier.pick(8, 9), max_l: 8, min_omega: mo, dmax: 6, max_ops: 2, profile: gen::PointProfile { u_w: [0.45, 0.45, 0.05, 0.05], xi_w: [0.3, 0.15, 0.45, 0.1], lambda_tail: 0.05, bm_extreme: 0.05 } })
}

pub fn assert_c07(c: &Phys, ev: &Eval, ctx: &mut Ctx) -> Result<(), Failure> {
    let ne = ev.ne;
    let d = c.g.d as f64;
    if ev.sym.degenerate_momenta {
        // the code's tropical polynomials are topological; they coincide with the largest monomials of the actual F
        // only for generic momenta (no partial sum of external momenta vanishes)
        ctx.label("excluded:non-generic-momenta");
        return Ok(());
    }
    if ev.path.min_gap < 1e-9 {
        ctx.label("excluded:edge-choice-within-1e-9-of-boundary");
        return Ok(());
    }
    let log = ev.out.log.as_ref().unwrap();
    let (x0, xs) = (&ev.x0, &ev.xs);
    // sector formula
    for (k, &e) in ev.path.order.iter().enumerate() {
        let want = ev.path.x0[e];
        if want == 0.0 || !want.is_finite() {
            ctx.label("excluded:predicted-parameter-underflows");
            return Ok(());
        }
        // the omegas of the table may differ from the reference by the rounding of their own (cancelling) sums
        let om_abs_err = 4.0 * (ne as f64 + 2.0) * EPS * (c.g.wsum_abs() + (ev.nl * c.g.d) as f64 / 2.0 + 1.0);
        let tol = 64.0 * (k as f64 + 1.0) * EPS + 16.0 * EPS * ev.path.sens_rel[e] + 2.0 * om_abs_err * ev.path.sens_abs[e];
        let r = rel(x0[e], want);
        ctx.max("sector_formula_rel_over_tol", r / tol);
        if !(r <= tol) {
            fail!("sector-formula", "edge {e} (removed {k}-th in order {:?}): logged unrescaled parameter {:e} but prod_j xi_j^(1/omega(g_j)) = {want:e} (rel {r:e}); logged {x0:?} for {c:?}", ev.path.order, x0[e]);
        }
    }
    // tropical polynomials at the unrescaled parameters (only where no monomial leaves the normal f64 range:
    // subnormal parameters carry only a few significant bits)
    let lnx = &ev.path.lnx0;
    let lowest = lnx.iter().cloned().fold(0.0f64, f64::min);
    if lowest < -650.0 || lowest * (ev.nl as f64 + 1.0) < -650.0 || ev.sym.ln_u_trop(lnx) < -650.0 || ev.sym.ln_f_trop(lnx) < -650.0 {
        ctx.label("excluded:monomials-leave-normal-range");
        return Ok(());
    }
    let (ut, vt) = (ev.sym.u_trop(x0), ev.sym.v_trop(x0));
    if !(ut > 0.0 && vt > 0.0 && ut.is_finite() && vt.is_finite()) {
        ctx.label("excluded:tropical-polynomials-underflow");
        return Ok(());
    }
    let tolt = 8.0 * ne as f64 * EPS;
    if !(rel(log.ut0, ut) <= tolt) {
        fail!("u-trop", "logged u_trop {:e} but the largest monomial of U at the same parameters is {ut:e}; x0={x0:?} for {c:?}", log.ut0);
    }
    if !(rel(log.vt0, vt) <= 2.0 * tolt) {
        fail!("v-trop", "logged v_trop {:e} but (largest monomial of F)/(largest monomial of U) = {vt:e}; x0={x0:?} for {c:?}", log.vt0);
    }
    if !ev.in_range {
        ctx.label("excluded:out-of-range(rescaling)");
        return Ok(());
    }
    // common rescaling
    let s0 = xs[0] / x0[0];
    for e in 0..ne {
        let s = xs[e] / x0[e];
        if !(rel(s, s0) <= 8.0 * EPS) {
            fail!("rescaling-not-common", "rescaled/unrescaled ratio is {s0:e} for edge 0 but {s:e} for edge {e}");
        }
    }
    let (uts, vts) = (ev.sym.u_trop(xs), ev.sym.v_trop(xs));
    let prod = uts.powf(d / 2.0) * vts.powf(ev.dod);
    let ln_target = (-(d / 2.0) * ut.ln() - ev.dod * vt.ln()).abs();
    let tolg = 64.0 * EPS * (2.0 + d / 2.0 * ut.ln().abs() + ev.dod.abs() * vt.ln().abs() + ln_target + (d / 2.0) * uts.ln().abs() + ev.dod * vts.ln().abs()) * (1.0 + d / 2.0 * ev.nl as f64 + ev.dod);
    ctx.max("gauge_identity_over_tol", (prod - 1.0).abs() / tolg);
    if !((prod - 1.0).abs() <= tolg) {
        fail!("rescaling-gauge", "after the rescaling U_tr^(D/2) V_tr^dod = {prod} (|.-1| = {:e} > {tolg:e}); U_tr={uts:e} V_tr={vts:e} for {c:?}", (prod - 1.0).abs());
    }
    let mixed = c.g.massive.iter().any(|&m| m) && c.g.massive.iter().any(|&m| !m);
    let identity = ev.path.order.iter().enumerate().all(|(i, &e)| i == e);
    if (ev.nl >= 2 || mixed) && !identity {
        ctx.nontrivial();
    }
    Ok(())
}

fn check_d<const D: usize>(c: &Phys, ctx: &mut Ctx) -> Result<(), Failure> {
    phys::classes_label(c, ctx);
    let Some(ev) = phys::evaluate::<D>(c, ctx, None)? else { return Ok(()) };
    assert_c07(c, &ev, ctx)
}
pub fn check(c: &Phys, ctx: &mut Ctx) -> Result<(), Failure> {
    phys::validate(c)?;
    with_d!(c.g.d, check_d(c, ctx))
}
pub fn gen_case_large(t: &mut Tape, _tier: Tier) -> Option<Phys> {
    gen::gen_phys_large(t, 2, &gen::PointProfile { u_w: [0.45, 0.45, 0.05, 0.05], xi_w: [0.3, 0.15, 0.45, 0.1], lambda_tail: 0.05, bm_extreme: 0.05 })
}
pub fn run(tier: Tier, seed: u64) -> i32 {
    let t0 = Instant::now();
    let sp = Spec { id: "C07", rule: RULE, tape_len: 280, cases: tier.pick(100_000, 1_000_000), gen: gen_case, check, max_shrink_iters: 3000, shards: 16 };
    let mut stats = engine::run_spec(&sp, tier, seed);
    // rare class with its own budget: 13/14-edge graphs (2^13 / 2^14 table entries, > 12 edges)
    let spl = Spec { id: "C07", rule: RULE, tape_len: 520, cases: tier.pick(128, 1_600), gen: gen_case_large, check, max_shrink_iters: 40, shards: 16 };
    stats.merge(engine::run_spec(&spl, tier, seed ^ 0x1a26e));
    engine::run_regressions::<Phys>("C07", check, &mut stats);
    engine::finish("C07", tier, seed, RULE, stats, t0, serde_json::json!({}), &["parameters and tropical values observed through the crate's debug log", "reference J (own recursion) decides the removal order with exact rational cumulative sums"])
}
pub fn replay(path: &str) -> i32 {
    engine::replay_file::<Phys>("C07", path, check)
}
