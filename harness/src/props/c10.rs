//! C10 — loop momenta: Gaussian map with covariance (V/2λ) L^-1 centred at -L^-1 u.
use super::phys::{self, Eval, EPS, K};
use crate::engine::{self, Ctx, Failure, Spec, Tape, Tier};
use crate::fail;
use crate::gen::{self, Phys, PhysOpts};
use crate::oracle::graph::{q, qf, Q};
use crate::oracle::lin;
use crate::sut::{self, SutErr};
use crate::with_d;
use num::{Signed, Zero};
use std::time::Instant;

pub const RULE: &str = "cases = as C09 (accepted connected graphs, L=1..5, D=1..6, masses, shifts from a scrambled routing, structured points incl. Box-Muller and lambda tails). oracle (exact rational arithmetic on the returned f64 values): (i) sum_e x_e(|q_e|^2+m_e^2) = v(1+|q|^2/(2 lambda)) with q_e rebuilt from loop_momenta, signature and shifts; (ii) q_transposed*(k+shift) = sqrt(v/(2 lambda)) q componentwise; (iii) q_transposed^T q_transposed = L; (iv) shift = L^-1 u with the exact inverse; all within 1000*eps*kappa*c_V. non-trivial = L>=2 with a non-diagonal L matrix and an in-range, well-conditioned point; distinct = distinct case encodings";

pub fn gen_case(t: &mut Tape, tier: Tier) -> Option<Phys> {
    let mo = if t.chance(0.3) { 1.0 / 64.0 } else { 0.15 };
    let prof = gen::PointProfile { lambda_tail: 0.1, bm_extreme: 0.1, ..gen::MODERATE };
    if t.chance(0.2) {
        // hand-written-style kinematics (small integers / half-integers)
        let g = gen::gen_phys_graph(t, tier.pick(8, 9), 8, mo, 6)?;
        let (free, masses) = gen::gen_kin_data_special(t, &g);
        let kin = gen::gen_routing(t, &g, &free, &masses, tier.pick(4, 6));
        if !crate::oracle::sym::Sym::new(&g, &kin.inflow, &kin.masses).f_nonzero() {
            return None;
        }
        let (x, mut classes) = gen::gen_point(t, &g, &prof);
        classes.push("kin:small-integers");
        return Some(Phys { g, kin, x, classes: classes.into_iter().map(String::from).collect() });
    }
    let mut p = gen::gen_phys(t, &PhysOpts { max_e: tier.pick(8, 9), max_l: 8, min_omega: mo, dmax: 6, max_ops: tier.pick(4, 6), profile: prof })?;
    if !t.chance(0.9) {
        // edge data that contradicts the mass flags the sampler was built with (a mass for an edge declared massless,
        // none for one declared massive): the momentum-map identities are algebraic in the masses actually supplied
        gen::contradict_mass_flags(t, &mut p);
        if !crate::oracle::sym::Sym::new(&p.g, &p.kin.inflow, &p.kin.masses).f_nonzero() {
            return None;
        }
    }
    Some(p)
}

pub fn assert_c10(c: &Phys, ev: &Eval, ctx: &mut Ctx) -> Result<(), Failure> {
    let (ne, nl) = (ev.ne, ev.nl);
    let d = c.g.d;
    let Some(md) = ev.out.meta.as_ref() else { fail!("no-metadata", "return_metadata=true but no metadata returned") };
    let k = &ev.out.k;
    if k.len() != nl || md.q.len() != nl || md.shift.len() != nl {
        fail!("lengths", "loop_momenta/q_vectors/shift have lengths {}/{}/{} for {nl} loops", k.len(), md.q.len(), md.shift.len());
    }
    if !ev.in_range {
        ctx.label("excluded:out-of-range");
        return Ok(());
    }
    if ev.tau_v > 1e-3 {
        ctx.label("excluded:ill-conditioned");
        return Ok(());
    }
    if !ev.lambda_in_range {
        ctx.label("excluded:gamma-quantile-below-1e-13");
        return Ok(());
    }
    let finite = k.iter().flatten().chain(md.q.iter().flatten()).chain(md.shift.iter().flatten()).all(|x| x.is_finite()) && md.lambda.is_finite() && md.lambda > 0.0 && ev.out.v.is_finite();
    if !finite {
        // Box-Muller with a == 0 cannot occur (generator keeps a > 0); anything else non-finite in range is a defect
        fail!("nonfinite-momenta", "in-range point but loop momenta / q / shift / lambda not finite: k={k:?} q={:?} lambda={} for {c:?}", md.q, md.lambda);
    }
    let v = ev.out.v;
    let lam = md.lambda;
    // (iii) Cholesky factor reproduces L
    let qt = lin::from_f64(&md.dec.qt).ok_or_else(|| Failure::new("nonfinite-factor", "q_transposed has non-finite entries"))?;
    let rtr = lin::matmul(&lin::transpose(&qt), &qt);
    let labs_f = ev.kappa / lin::fro(&ev.invq); // ||  |L|  ||_F
    let e3 = lin::fro(&lin::sub(&rtr, &ev.lq));
    let tol3 = K * EPS * labs_f * nl as f64;
    ctx.max("RtR_minus_L_over_tol", e3 / tol3);
    if !(e3 <= tol3) {
        fail!("factor-not-cholesky", "||q_transposed^T q_transposed - L||_F = {e3:e} > {tol3:e}; q_transposed={:?} L={:?}", md.dec.qt, md.l);
    }
    for i in 0..nl {
        for j in 0..i {
            if md.dec.qt[i][j] != 0.0 {
                fail!("factor-not-upper", "q_transposed[{i}][{j}]={} below the diagonal", md.dec.qt[i][j]);
            }
        }
    }
    // (iv) shift = L^-1 u (exact u-vectors from the case, exact inverse)
    let uq: Vec<Vec<Q>> = (0..nl).map(|l| (0..d).map(|i| (0..ne).fold(Q::zero(), |a, e| a + q(ev.xs[e]) * q(c.kin.sig[e][l] as f64) * q(c.kin.shifts[e][i]))).collect()).collect();
    let uabs: Vec<Vec<f64>> = (0..nl).map(|l| (0..d).map(|i| (0..ne).map(|e| (ev.xs[e] * c.kin.sig[e][l] as f64 * c.kin.shifts[e][i]).abs()).sum()).collect()).collect();
    let mut shift_exact = vec![vec![Q::zero(); d]; nl];
    let inv_fro = lin::fro(&ev.invq);
    // normwise magnitude of L^-1 u before any cancellation, per component
    let sscale: Vec<f64> = (0..d).map(|i| inv_fro * lin::norm2(&(0..nl).map(|l| uabs[l][i]).collect::<Vec<_>>())).collect();
    for l in 0..nl {
        for i in 0..d {
            let mut acc = Q::zero();
            let scale = sscale[i];
            for lp in 0..nl {
                acc += &ev.invq[l][lp] * &uq[lp][i];
            }
            let got = md.shift[l][i];
            let tol = K * EPS * ev.kappa * scale.max(f64::MIN_POSITIVE);
            let err = qf(&(q(got) - &acc).abs());
            ctx.max("shift_vs_exact_over_tol", if scale > 0.0 { err / tol } else { 0.0 });
            if !(err <= tol) {
                fail!("shift-vs-Linv-u", "shift[{l}][{i}]={got:e} but exact L^-1 u = {:e} (err {err:e} > {tol:e}, kappa {:e}) for {c:?}", qf(&acc), ev.kappa);
            }
            shift_exact[l][i] = acc;
        }
    }
    // (i) scalar identity, exact on the returned numbers
    let mut lhs = Q::zero();
    for e in 0..ne {
        let mut s2 = q(c.kin.masses[e]) * q(c.kin.masses[e]);
        for i in 0..d {
            let mut qe = q(c.kin.shifts[e][i]);
            for l in 0..nl {
                qe += q(c.kin.sig[e][l] as f64) * q(k[l][i]);
            }
            s2 += &qe * &qe;
        }
        lhs += q(ev.xs[e]) * s2;
    }
    let q2: Q = md.q.iter().flatten().fold(Q::zero(), |a, &x| a + q(x) * q(x));
    let rhs = q(v) * (Q::from_integer(1.into()) + &q2 / (q(2.0) * q(lam)));
    let r1 = qf(&((&lhs - &rhs) / &rhs).abs());
    let tol1 = ev.tau_v * 4.0;
    ctx.max("scalar_identity_over_tol", r1 / tol1);
    if !(r1 <= tol1) {
        fail!("momentum-scalar-identity", "sum_e x_e(|q_e|^2+m_e^2) = {:e} but v(1+|q|^2/2lambda) = {:e} (rel {r1:e} > {tol1:e}; kappa {:e} c_V {:e}) for {c:?}", qf(&lhs), qf(&rhs), ev.kappa, ev.cv);
    }
    // (ii) vector identity: q_transposed (k + shift) = sqrt(v/2lambda) q
    let pref = (v / lam / 2.0).sqrt();
    // normwise magnitude of the Gaussian part of k before cancellation: structurally-zero entries of the computed
    // triangular inverse carry eps-level noise that multiplies O(1) components of q
    let qt_fro = lin::norm2(&md.dec.qt.iter().flatten().cloned().collect::<Vec<_>>());
    let qti_fro = lin::norm2(&md.dec.qti.iter().flatten().cloned().collect::<Vec<_>>());
    let gscale: Vec<f64> = (0..d).map(|i| pref * qti_fro * lin::norm2(&(0..nl).map(|l| md.q[l][i]).collect::<Vec<_>>())).collect();
    for l in 0..nl {
        for i in 0..d {
            let mut acc = Q::zero();
            let mut scale = qt_fro * (gscale[i] + sscale[i]);
            for lp in 0..nl {
                acc += &qt[l][lp] * (q(k[lp][i]) + q(md.shift[lp][i]));
                scale += md.dec.qt[l][lp].abs() * (k[lp][i].abs() + md.shift[lp][i].abs());
            }
            let want = pref * md.q[l][i];
            let err = (qf(&acc) - want).abs();
            let tol = K * EPS * ev.kappa * (scale + want.abs()).max(f64::MIN_POSITIVE);
            ctx.max("vector_identity_over_tol", err / tol);
            if !(err <= tol) {
                fail!("momentum-vector-identity", "[q_transposed (k+shift)][{l}][{i}] = {:e} but sqrt(v/2lambda) q = {want:e} (err {err:e} > {tol:e}) for {c:?}", qf(&acc));
            }
        }
    }
    let offdiag = (0..nl).any(|i| (0..nl).any(|j| i != j && md.l[i][j] != 0.0));
    if nl >= 2 && offdiag {
        ctx.nontrivial();
    }
    Ok(())
}

fn check_d<const D: usize>(c: &Phys, ctx: &mut Ctx) -> Result<(), Failure> {
    phys::classes_label(c, ctx);
    let Some(ev) = phys::evaluate::<D>(c, ctx, None)? else { return Ok(()) };
    if ctx.replay && std::env::var("VERIF_DEBUG").is_ok() {
        eprintln!("out = {:#?}\nxs = {:?}\nkappa = {:e} cv = {:e}", ev.out, ev.xs, ev.kappa, ev.cv);
    }
    assert_c10(c, &ev, ctx)?;
    // the momenta a caller gets under the default settings (no metadata, no debug output) must satisfy the same
    // identities; q, lambda, L and the shift of this point are taken from the evaluation above
    if let Ok(s2) = sut::build::<D>(&c.g, c.kin.sig.clone()) {
        let ed = sut::edge_data::<D>(&c.mass_given(), &c.kin.masses, &c.kin.shifts);
        match sut::sample_f64(&s2, &c.x, ed, ev.stab, false, false) {
            Ok(o2) => {
                let mut ev2 = ev.clone();
                ev2.out.k = o2.k.clone();
                ev2.out.u = o2.u;
                ev2.out.v = o2.v;
                ev2.out.jac = o2.jac;
                if let Err(f) = assert_c10(c, &ev2, ctx) {
                    return Err(Failure { signature: format!("{}(return_metadata=false)", f.signature), message: format!("with return_metadata=false and print_debug_info=false: {}", f.message) });
                }
                ctx.label("default-settings:checked");
            }
            Err(SutErr::Panic(m)) => fail!("sample-panic", "sampling with the default settings panicked: {m}; case {c:?}"),
            Err(_) => ctx.label("default-settings:sample-error"),
        }
    }
    Ok(())
}
pub fn check(c: &Phys, ctx: &mut Ctx) -> Result<(), Failure> {
    phys::validate(c)?;
    with_d!(c.g.d, check_d(c, ctx))
}
pub fn gen_case_large(t: &mut Tape, tier: Tier) -> Option<Phys> {
    gen::gen_phys_large(t, tier.pick(4, 6), &gen::PointProfile { lambda_tail: 0.1, bm_extreme: 0.1, ..gen::MODERATE })
}
pub fn run(tier: Tier, seed: u64) -> i32 {
    let t0 = Instant::now();
    let sp = Spec { id: "C10", rule: RULE, tape_len: 280, cases: tier.pick(60_000, 600_000), gen: gen_case, check, max_shrink_iters: 3000, shards: 16 };
    let mut stats = engine::run_spec(&sp, tier, seed);
    // rare class with its own budget: 13/14-edge graphs (2^13 / 2^14 table entries, > 12 edges)
    let spl = Spec { id: "C10", rule: RULE, tape_len: 520, cases: tier.pick(128, 1_600), gen: gen_case_large, check, max_shrink_iters: 40, shards: 16 };
    stats.merge(engine::run_spec(&spl, tier, seed ^ 0x1a26e));
    engine::run_regressions::<Phys>("C10", check, &mut stats);
    engine::finish("C10", tier, seed, RULE, stats, t0, serde_json::json!({}), &["Feynman parameters read from the crate's debug log (checked by C07)", "identities evaluated in exact rational arithmetic on the returned f64 values", "tolerance 1000*eps*kappa*c_V"])
}
pub fn replay(path: &str) -> i32 {
    engine::replay_file::<Phys>("C10", path, check)
}
