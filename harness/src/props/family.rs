//! Families of sibling graphs built one after the other on the same thread.
//! The table properties (C03, C04, C05) quantify over *every* graph, whatever was built before it. A family is one
//! base graph followed by copies that differ from it in exactly one attribute (externals, one mass flag, one weight
//! by a few ulps or by a permutation, the dimension, one vertex label, the edge order) and by the base graph again;
//! every member is checked by the property's ordinary per-graph oracle. Code that remembers anything between builds
//! and recognises a graph by less than all of its attributes answers one of the members with another member's table.
use crate::engine::{Ctx, Failure, Tape, Tier};
use crate::fail;
use crate::gen;
use crate::oracle::graph::G;
use serde::{Deserialize, Serialize};

#[derive(Clone, Debug, Serialize, Deserialize)]
pub enum Edit {
    /// replace the list of external vertices
    Externals(Vec<u8>),
    FlipMass(usize),
    /// move one weight by k ulps
    WeightUlps(usize, i64),
    SwapWeights(usize, usize),
    Dimension(usize),
    /// rename a vertex everywhere (edges and externals)
    Relabel(u8, u8),
    SwapEdges(usize, usize),
    /// the base graph once more
    Same,
}
#[derive(Clone, Debug, Serialize, Deserialize)]
pub struct Family {
    pub base: G,
    pub edits: Vec<Edit>,
}

pub fn apply(g: &G, e: &Edit) -> Option<G> {
    let mut h = g.clone();
    let ne = g.nedges();
    match e {
        Edit::Externals(x) => h.externals = x.clone(),
        Edit::FlipMass(i) => {
            if *i >= ne {
                return None;
            }
            h.massive[*i] = !h.massive[*i];
        }
        Edit::WeightUlps(i, k) => {
            if *i >= ne {
                return None;
            }
            let w = gen::ulp_step(h.weights[*i], *k);
            if !(w.is_finite() && w > 0.0) {
                return None;
            }
            h.weights[*i] = w;
        }
        Edit::SwapWeights(i, j) => {
            if *i >= ne || *j >= ne {
                return None;
            }
            h.weights.swap(*i, *j);
        }
        Edit::Dimension(d) => {
            if !(1..=6).contains(d) {
                return None;
            }
            h.d = *d;
        }
        Edit::Relabel(a, b) => {
            let f = |v: u8| if v == *a { *b } else { v };
            h.edges = h.edges.iter().map(|&(x, y)| (f(x), f(y))).collect();
            h.externals = h.externals.iter().map(|&v| f(v)).collect();
        }
        Edit::SwapEdges(i, j) => {
            if *i >= ne || *j >= ne {
                return None;
            }
            h.edges.swap(*i, *j);
            h.massive.swap(*i, *j);
            h.weights.swap(*i, *j);
        }
        Edit::Same => {}
    }
    Some(h)
}

pub fn gen_family(t: &mut Tape, tier: Tier, max_e: usize) -> Option<Family> {
    let base = gen::gen_any_graph(t, tier);
    let ne = base.nedges();
    if ne == 0 || ne > max_e {
        return None;
    }
    let mut verts: Vec<u8> = base.edges.iter().flat_map(|&(a, b)| [a, b]).collect();
    verts.sort();
    verts.dedup();
    let n = t.range(1, 4);
    let mut edits = vec![];
    for _ in 0..n {
        let e = match t.below(8) {
            0 | 1 => {
                // other externals: a subset / superset / permutation of the touched vertices, sometimes a foreign label
                let k = t.below(verts.len() + 2);
                let mut x: Vec<u8> = (0..k).map(|_| verts[t.below(verts.len())]).collect();
                if t.chance(0.1) {
                    x.push(t.below(256) as u8);
                }
                Edit::Externals(x)
            }
            2 => Edit::FlipMass(t.below(ne)),
            3 => Edit::WeightUlps(t.below(ne), *t.pick(&[1i64, -1, 2, -3, 64, -4096])),
            4 => Edit::SwapWeights(t.below(ne), t.below(ne)),
            5 => Edit::Dimension(t.range(1, 6)),
            6 => Edit::Relabel(verts[t.below(verts.len())], t.below(256) as u8),
            _ => Edit::SwapEdges(t.below(ne), t.below(ne)),
        };
        edits.push(e);
    }
    edits.push(Edit::Same);
    Some(Family { base, edits })
}

/// base, every edited copy (edits are applied to the BASE, not cumulatively), in order
pub fn members(f: &Family) -> Vec<(String, G)> {
    let mut out = vec![("base".to_string(), f.base.clone())];
    for e in &f.edits {
        if let Some(g) = apply(&f.base, e) {
            out.push((format!("{e:?}"), g));
        }
    }
    out
}

/// run a per-graph check over the members of a family, in order, on the calling thread
pub fn check_family(f: &Family, ctx: &mut Ctx, check: &dyn Fn(&G, &mut Ctx) -> Result<(), Failure>) -> Result<(), Failure> {
    if f.edits.len() > 8 {
        fail!("bad-case", "family too long");
    }
    let ms = members(f);
    for (i, (what, g)) in ms.iter().enumerate() {
        let mut sub = Ctx::default();
        match check(g, &mut sub) {
            Ok(()) => {}
            Err(e) if e.signature == "bad-case" => {
                ctx.label("family:member-outside-domain");
                continue;
            }
            Err(e) => {
                return Err(Failure { signature: format!("family:{}", e.signature), message: format!("member {i} ({what}) of a family of sibling graphs built one after the other: {}; base graph {:?}, edits {:?}", e.message, f.base, f.edits) });
            }
        }
        ctx.count("family_members_checked", 1);
    }
    ctx.label(format!("family:size={}", ms.len()));
    if ms.len() >= 3 {
        ctx.nontrivial();
    }
    Ok(())
}

// ------------------------------------------------------------------ soak: long histories of a small pool
/// A pool of tiny graphs built over and over on one thread: every build must serialise to exactly the text of the
/// first build of the same graph (which the ordinary oracle has checked). Reaches state that only goes wrong after
/// tens of thousands of calls (wrapping counters, generation stamps, caches that fill up).
#[derive(Clone, Debug, Serialize, Deserialize)]
pub struct Soak {
    pub pool: Vec<G>,
    pub rounds: usize,
    /// graph i is built in the rounds that are multiples of periods[i] (missing = 1): the distance between two builds
    /// of different graphs then sweeps over a wide range instead of repeating
    #[serde(default)]
    pub periods: Vec<usize>,
}
pub fn gen_soak(t: &mut Tape, tier: Tier) -> Option<Soak> {
    let n = t.range(3, 8);
    let mut pool = vec![];
    for _ in 0..n {
        let g = gen::gen_any_graph(t, tier);
        if g.nedges() >= 1 && g.nedges() <= 5 {
            pool.push(g);
        }
    }
    if pool.len() < 2 {
        return None;
    }
    // graphs of one history share vertex labels in different roles: a vertex that carries edges in one graph is an
    // external vertex without edges in another
    for _ in 0..t.below(4) {
        let a = t.below(pool.len());
        let b = t.below(pool.len());
        if a == b {
            continue;
        }
        let va: Vec<u8> = pool[a].edges.iter().flat_map(|&(x, y)| [x, y]).collect();
        let v = va[t.below(va.len())];
        if !pool[b].edges.iter().any(|&(x, y)| x == v || y == v) && pool[b].externals.len() < 6 {
            let pos = t.below(pool[b].externals.len() + 1);
            pool[b].externals.insert(pos, v);
        }
    }
    let rounds = t.range(tier.pick(20_000, 50_000), tier.pick(200_000, 400_000));
    // period 10^9 = built in round 0 only: everything it left behind ages for the rest of the history
    let periods: Vec<usize> = (0..pool.len()).map(|i| if i == 0 { 1 } else { *t.pick(&[1usize, 1, 2, 7, 64, 4096, 1_000_000_000, 1_000_000_000]) }).collect();
    Some(Soak { pool, rounds, periods })
}
/// serialisation of a freshly built sampler; `getter_calls` further calls of the public getters are part of the
/// history (get_dimension() recomputes the loop number of the graph)
fn fingerprint(g: &G, getter_calls: usize) -> String {
    fn f<const D: usize>(g: &G, getter_calls: usize) -> String {
        match crate::sut::build::<D>(g, crate::sut::dummy_sig(g.nedges(), g.num_loops())) {
            Ok(s) => {
                let mut txt = serde_json::to_string(&s).unwrap_or_else(|e| format!("UNSERIALISABLE {e}"));
                let want = crate::gen::dimension(g);
                for _ in 0..getter_calls {
                    if s.get_dimension() != want {
                        txt.push_str(&format!(" get_dimension()={} instead of {want}", s.get_dimension()));
                        break;
                    }
                }
                txt
            }
            Err(crate::sut::BuildErr::Rejected(_)) => "REJECTED".into(),
            Err(crate::sut::BuildErr::Panic(m)) => format!("PANIC {m}"),
        }
    }
    crate::with_d!(g.d, f(g, getter_calls))
}
pub fn check_soak(s: &Soak, ctx: &mut Ctx, check: &dyn Fn(&G, &mut Ctx) -> Result<(), Failure>) -> Result<(), Failure> {
    if s.pool.is_empty() || s.pool.len() > 16 || s.rounds > 5_000_000 || s.pool.iter().any(|g| g.nedges() == 0 || g.nedges() > 8 || !(1..=6).contains(&g.d)) {
        fail!("bad-case", "soak outside its domain");
    }
    let mut first = vec![];
    for g in &s.pool {
        let mut sub = Ctx::default();
        match check(g, &mut sub) {
            Ok(()) => {}
            Err(e) if e.signature == "bad-case" => {}
            Err(e) => return Err(Failure { signature: format!("soak:{}", e.signature), message: format!("first build of a pool graph: {}", e.message) }),
        }
        first.push(fingerprint(g, 1));
    }
    for r in 0..s.rounds {
        for (i, g) in s.pool.iter().enumerate() {
            let per = s.periods.get(i).copied().unwrap_or(1).max(1);
            if r % per != 0 {
                continue;
            }
            let fp = fingerprint(g, (r + i) % 3);
            if fp != first[i] {
                fail!("soak:build-changed", "a build of pool graph {i} (round {r}, period {per}; nominal build number {}) serialises differently from its first build: the table depends on how many graphs were built before on this thread; graph {g:?}; pool {:?}", r / per + 2, s.pool);
            }
        }
    }
    ctx.count("soak_builds", (s.rounds * s.pool.len()) as u64);
    ctx.label("soak");
    if s.rounds >= 1000 {
        ctx.nontrivial();
    }
    Ok(())
}
