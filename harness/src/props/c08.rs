//! C08 — the returned u is the first Symanzik polynomial; the metadata L matrix is sum_e x_e s_ei s_ej.
use super::phys::{self, rel, Eval, EPS};
use crate::engine::{self, Ctx, Failure, Spec, Tape, Tier};
use crate::fail;
use crate::gen::{self, Phys, PhysOpts};
use crate::oracle::graph::qf;
use crate::with_d;
use std::time::Instant;

pub const RULE: &str = "cases = accepted connected graphs (G-phys: random spanning tree + 1..5 extra edges incl. self-loops/parallel edges, E<=8 (thorough 9), D=1..6, all omega>=0.15 or >=1/64), a cycle basis built from a random spanning tree and scrambled by up to 4 (thorough 6) unimodular column operations and edge-orientation flips, a structured x-space point (uniform / interval-interior / moderate classes, some tails). oracle: metadata L matrix symmetric and entrywise sum_e x_e s_ei s_ej (x = logged parameters), u against the brute-force spanning-tree sum and the exact rational determinant within 1000*eps*kappa(L), and - for graded L matrices, where kappa(L) is huge - within 1000*eps*L*kappa(H) of the determinant, H the diagonally scaled matrix, when kappa(H) <= 1e8. non-trivial = L>=2 loops and a non-zero off-diagonal entry of L, parameters in the oracle's magnitude range; distinct = distinct case encodings";

pub fn gen_case(t: &mut Tape, tier: Tier) -> Option<Phys> {
    let mo = if t.chance(0.3) { 1.0 / 64.0 } else { 0.15 };
    gen::gen_phys(t, &PhysOpts { max_e: tier.pick(8, 9), max_l: 8, min_omega: mo, dmax: 6, max_ops: tier.pick(4, 6), profile: gen::MODERATE })
}

pub fn assert_c08(c: &Phys, ev: &Eval, ctx: &mut Ctx) -> Result<(), Failure> {
    let (ne, nl) = (ev.ne, ev.nl);
    let Some(md) = ev.out.meta.as_ref() else { fail!("no-metadata", "return_metadata=true but no metadata returned") };
    if md.l.len() != nl {
        fail!("l-matrix-dim", "L matrix has dimension {} for {nl} loops", md.l.len());
    }
    let sig = &c.kin.sig;
    for i in 0..nl {
        for j in 0..nl {
            if md.l[i][j].to_bits() != md.l[j][i].to_bits() && md.l[i][j] != md.l[j][i] {
                fail!("l-matrix-asymmetric", "L[{i}][{j}]={} but L[{j}][{i}]={}", md.l[i][j], md.l[j][i]);
            }
            let want = qf(&ev.lq[i][j]);
            let absum: f64 = (0..ne).map(|e| ev.xs[e] * (sig[e][i] * sig[e][j]).abs() as f64).sum();
            let tol = 8.0 * ne as f64 * EPS * absum;
            if !((md.l[i][j] - want).abs() <= tol) {
                fail!("l-matrix-entry", "L[{i}][{j}]={} but sum_e x_e s_ei s_ej = {want} (tol {tol:e}); x={:?} sig={sig:?}", md.l[i][j], ev.xs);
            }
        }
    }
    if !ev.in_range {
        ctx.label("excluded:out-of-range");
        return Ok(());
    }
    // graded L matrices (Feynman parameters on very different scales): a determinant formed from Cholesky pivots is
    // accurate to the condition number of the diagonally SCALED matrix H = D^-1/2 L D^-1/2 (|delta det/det| <~ n^2 eps
    // kappa(H), Higham ch. 10), however large kappa(L) itself is; the formation of L from the parameters perturbs H by
    // at most n eps as well (Cauchy-Schwarz on sum_e x_e s_ei s_ej)
    {
        let d: Vec<f64> = (0..nl).map(|i| qf(&ev.lq[i][i]).sqrt()).collect();
        if d.iter().all(|v| v.is_finite() && *v > 0.0) {
            let h: Vec<Vec<f64>> = (0..nl).map(|i| (0..nl).map(|j| qf(&ev.lq[i][j]) / (d[i] * d[j])).collect()).collect();
            if let Some(hq) = crate::oracle::lin::from_f64(&h) {
                if let Some((_, hinv)) = crate::oracle::lin::det_inv(&hq) {
                    let habs: crate::oracle::lin::QMat = hq.iter().map(|r| r.iter().map(|x| num::Signed::abs(x)).collect()).collect();
                    let kappa_s = crate::oracle::lin::fro(&habs) * crate::oracle::lin::fro(&hinv);
                    if kappa_s.is_finite() && kappa_s <= 1e8 {
                        let tol_s = phys::K * EPS * (nl as f64) * kappa_s;
                        let r = rel(ev.out.u, qf(&ev.detq));
                        ctx.max("u_vs_exact_det_over_scaled_tol", r / tol_s);
                        if !(r <= tol_s) {
                            fail!("u-vs-det(scaled)", "u={:e} but exact det(L)={:e} (rel {r:e} > {tol_s:e}): L is graded (kappa(L)={:e}) but its diagonally scaled form has condition number {kappa_s:e} only, so the determinant is well determined; case {c:?}", ev.out.u, qf(&ev.detq), ev.kappa);
                        }
                        if ev.tau_u > 1e-3 {
                            ctx.label("graded-L:decided-by-scaled-condition-number");
                        }
                    }
                }
            }
        }
    }
    if ev.tau_u > 1e-3 {
        ctx.label("excluded:ill-conditioned");
        return Ok(());
    }
    let u = ev.out.u;
    let det = qf(&ev.detq);
    let r1 = rel(u, det);
    ctx.max("u_vs_exact_det_over_tol", r1 / ev.tau_u);
    if !(r1 <= ev.tau_u) {
        fail!("u-vs-det", "u={u:e} but exact det(L)={det:e} (rel {r1:e} > {:e}, kappa={:e}) for {c:?}", ev.tau_u, ev.kappa);
    }
    let tol_tree = ev.tau_u + 4.0 * ev.sym.trees.len() as f64 * ne as f64 * EPS;
    let r2 = rel(u, ev.u_or);
    ctx.max("u_vs_tree_sum_over_tol", r2 / tol_tree);
    if !(r2 <= tol_tree) {
        fail!("u-vs-spanning-trees", "u={u:e} but the sum over {} spanning trees gives {:e} (rel {r2:e} > {tol_tree:e}) for {c:?}", ev.sym.trees.len(), ev.u_or);
    }
    if md.dec.det.to_bits() != u.to_bits() {
        fail!("u-vs-metadata-det", "returned u {u} differs from metadata determinant {}", md.dec.det);
    }
    let offdiag = (0..nl).any(|i| (0..nl).any(|j| i != j && md.l[i][j] != 0.0));
    if nl >= 2 && offdiag {
        ctx.nontrivial();
    }
    Ok(())
}

fn check_d<const D: usize>(c: &Phys, ctx: &mut Ctx) -> Result<(), Failure> {
    phys::classes_label(c, ctx);
    let Some(ev) = phys::evaluate::<D>(c, ctx, None)? else { return Ok(()) };
    assert_c08(c, &ev, ctx)
}
pub fn check(c: &Phys, ctx: &mut Ctx) -> Result<(), Failure> {
    phys::validate(c)?;
    with_d!(c.g.d, check_d(c, ctx))
}
pub fn gen_case_large(t: &mut Tape, tier: Tier) -> Option<Phys> {
    gen::gen_phys_large(t, tier.pick(4, 6), &gen::MODERATE)
}
pub fn run(tier: Tier, seed: u64) -> i32 {
    let t0 = Instant::now();
    let sp = Spec { id: "C08", rule: RULE, tape_len: 280, cases: tier.pick(100_000, 1_000_000), gen: gen_case, check, max_shrink_iters: 3000, shards: 16 };
    let mut stats = engine::run_spec(&sp, tier, seed);
    // rare class with its own budget: 13/14-edge graphs (2^13 / 2^14 table entries, > 12 edges)
    let spl = Spec { id: "C08", rule: RULE, tape_len: 520, cases: tier.pick(128, 1_600), gen: gen_case_large, check, max_shrink_iters: 40, shards: 16 };
    stats.merge(engine::run_spec(&spl, tier, seed ^ 0x1a26e));
    engine::run_regressions::<Phys>("C08", check, &mut stats);
    engine::finish("C08", tier, seed, RULE, stats, t0, serde_json::json!({}), &["Feynman parameters are read from the crate's debug log (checked against the sector formula by C07)", "exact rational determinant / brute-force spanning trees as oracle", "tolerance 1000*eps*kappa(L), kappa computed exactly"])
}
pub fn replay(path: &str) -> i32 {
    engine::replay_file::<Phys>("C08", path, check)
}
