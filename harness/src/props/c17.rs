//! C17 — sampling is a pure function of its arguments (model-based histories, threads, processes, rng equivalence).
use super::c18::full_bits;
use super::phys;
use super::xproc;
use crate::engine::{self, Ctx, Failure, Spec, Stats, Tape, Tier};
use crate::fail;
use crate::gen::{self, Phys, PhysOpts};
use crate::sut::{self, BuildErr, Cap, NoLog};
use crate::with_d;
use momtrop::SampleGenerator;
use rand::{Rng, RngCore, SeedableRng};
use serde::{Deserialize, Serialize};
use std::collections::BTreeMap;
use std::time::Instant;

pub const RULE: &str = "cases = one accepted graph + kinematics, 4 x-space points and a history of 1..40 operations on a shared sampler: SampleX(point, return_metadata, print_debug_info, stability None/Some(1e300)), SampleRng(seed, flags), SampleNear(point with one coordinate moved by 1..8 ulps, flags), UseClone, UseSerdeCopy (continue with a JSON round-tripped copy), Rebuild (continue with a sampler built again from the same graph), SampleStrict (stability tolerance 1e-18: the error path), SampleOther (same point, other masses/shifts), Aux (a different sampler sampled in between), Burst(t<=8 threads x m<=6 samples on the shared sampler), ConstPair (main, auxiliary, main sampler at the point whose coordinates all equal one value: every partial key of the arguments coincides), Threshold (bisection for the smallest accepting stability tolerance t*, then all four flag settings at t* and at the next smaller float must agree with the plain call). model = map (point, stability setting) -> first observed bit pattern of (loop_momenta,u,v,u_trop,v_trop,jacobian | error kind); invariant after every step: every observation equals the model, for all combinations of return_metadata x print_debug_info. generate_sample_from_rng: the rng is cloned, get_dimension() numbers are drawn from the clone, the result must equal the x-space call on those numbers and both rngs must be in the same state afterwards. cross-process: the same graphs/points are sampled in a freshly started process (different hash seeds) and compared bit for bit; in the parent process every sampler is preceded by a build of the same graph for another dimension. non-trivial = history with >= 2 distinct flag settings and a thread burst; distinct = distinct case encodings";

#[derive(Clone, Debug, Serialize, Deserialize)]
pub enum Op {
    SampleX { pt: usize, meta: bool, debug: bool, stab: bool },
    SampleRng { seed: u64, meta: bool, debug: bool },
    /// sample a neighbour of point `pt`: coordinate `coord` moved by `ulps` ulps (a cache keyed approximately on
    /// its inputs would confuse the two)
    SampleNear { pt: usize, coord: usize, ulps: i64, meta: bool, debug: bool },
    UseClone,
    UseSerdeCopy,
    /// continue with a sampler built again from the same graph (fresh hash seeds, as another process would)
    Rebuild,
    /// same point, stability test with a tolerance that fails (1e-18): the error path
    SampleStrict { pt: usize, meta: bool, debug: bool },
    /// same point, same sampler, OTHER edge data (masses x1.5, shifts halved and displaced)
    SampleOther { pt: usize, meta: bool, debug: bool },
    /// a different sampler (massive bubble in the same dimension) sampled in between
    Aux { pt: usize, meta: bool, debug: bool },
    Burst { threads: usize, per: usize, meta: bool, debug: bool },
    /// the main sampler, then the auxiliary sampler, then the main sampler again, each at the point whose coordinates
    /// all equal one value (the k-th coordinate of point 0): any hidden state keyed on part of the arguments is shared
    ConstPair { k: usize, meta: bool, debug: bool },
    /// find by bisection the smallest stability tolerance t* that accepts the point, then compare all flag settings
    /// at t* and at the next smaller float
    Threshold { pt: usize },
}
#[derive(Clone, Debug, Serialize, Deserialize)]
pub struct Case {
    pub p: Phys,
    pub points: Vec<Vec<f64>>,
    pub ops: Vec<Op>,
}

pub fn gen_case(t: &mut Tape, tier: Tier) -> Option<Case> {
    let mo = if t.chance(0.3) { 1.0 / 64.0 } else { 0.15 };
    let opts = PhysOpts { max_e: tier.pick(7, 8), max_l: 8, min_omega: mo, dmax: 6, max_ops: 3, profile: gen::SECTOR };
    let p = if t.chance(0.1) { gen::gen_phys_union(t, &opts)? } else { gen::gen_phys(t, &opts)? };
    let points: Vec<Vec<f64>> = (0..4).map(|i| if i == 0 { p.x.clone() } else { gen::gen_point(t, &p.g, if i == 3 { &gen::CORNERS } else { &gen::MODERATE }).0 }).collect();
    let n = t.range(1, 40);
    let ops = (0..n)
        .map(|_| match t.weighted(&[0.32, 0.11, 0.06, 0.05, 0.14, 0.13, 0.06, 0.08, 0.03, 0.02]) {
            8 => Op::ConstPair { k: t.below(3), meta: t.bool(), debug: t.bool() },
            9 => Op::Threshold { pt: t.below(4) },
            6 => Op::Rebuild,
            7 => match t.below(3) {
                0 => Op::SampleStrict { pt: t.below(4), meta: t.bool(), debug: t.bool() },
                1 => Op::SampleOther { pt: t.below(4), meta: t.bool(), debug: t.bool() },
                _ => Op::Aux { pt: t.below(4), meta: t.bool(), debug: t.bool() },
            },
            5 => {
                let dim = gen::dimension(&p.g);
                // half of the time the gamma coordinate (the one scalar routine with its own iteration), else any
                let coord = if t.bool() { 2 * p.g.nedges() - 2 } else { t.below(dim) };
                let ulps = t.range(1, 8) as i64 * if t.bool() { 1 } else { -1 };
                Op::SampleNear { pt: t.below(4), coord, ulps, meta: t.bool(), debug: t.bool() }
            }
            0 => Op::SampleX { pt: t.below(4), meta: t.bool(), debug: t.bool(), stab: t.bool() },
            1 => Op::SampleRng { seed: t.next(), meta: t.bool(), debug: t.bool() },
            2 => Op::UseClone,
            3 => Op::UseSerdeCopy,
            _ => Op::Burst { threads: t.range(2, 8), per: t.range(1, 6), meta: t.bool(), debug: t.bool() },
        })
        .collect();
    Some(Case { p, points, ops })
}

/// StdRng whose n-th 64-bit output is 0 (so that gen::<f64>() yields exactly 0.0 there)
#[derive(Clone)]
pub struct ZeroInjectRng {
    inner: rand::rngs::StdRng,
    count: usize,
    zero_at: Option<usize>,
}
impl RngCore for ZeroInjectRng {
    fn next_u32(&mut self) -> u32 {
        self.next_u64() as u32
    }
    fn next_u64(&mut self) -> u64 {
        let v = self.inner.next_u64();
        let i = self.count;
        self.count += 1;
        if Some(i) == self.zero_at {
            0
        } else {
            v
        }
    }
    fn fill_bytes(&mut self, dest: &mut [u8]) {
        for chunk in dest.chunks_mut(8) {
            let b = self.next_u64().to_le_bytes();
            chunk.copy_from_slice(&b[..chunk.len()]);
        }
    }
    fn try_fill_bytes(&mut self, dest: &mut [u8]) -> Result<(), rand::Error> {
        self.fill_bytes(dest);
        Ok(())
    }
}

fn stab_of(b: bool) -> Option<f64> {
    if b {
        Some(1e300)
    } else {
        None
    }
}

/// numerical result only (metadata is excluded: the claim is that the flags do not change the numbers)
fn result_bits<const D: usize>(s: &SampleGenerator<D>, p: &Phys, x: &[f64], meta: bool, debug: bool, stab: bool) -> Vec<u64> {
    let ed = sut::edge_data::<D>(&p.g.massive, &p.kin.masses, &p.kin.shifts);
    let r = sut::sample_f64(s, x, ed, stab_of(stab), debug, meta);
    match r {
        Ok(o) => o.bits(),
        Err(e) => full_bits(&Err(e)),
    }
}

/// variants of a sampling call that must each be a pure function of their own arguments:
/// 0 = strict stability tolerance, 1 = other edge data, 2 = auxiliary sampler
fn variant_bits<const D: usize>(s: &SampleGenerator<D>, aux: &SampleGenerator<D>, p: &Phys, x: &[f64], variant: u8, meta: bool, debug: bool) -> Vec<u64> {
    let g = &p.g;
    let r = match variant {
        0 => sut::sample_f64(s, x, sut::edge_data::<D>(&g.massive, &p.kin.masses, &p.kin.shifts), Some(1e-18), debug, meta),
        1 => {
            let m2: Vec<f64> = p.kin.masses.iter().map(|m| m * 1.5).collect();
            let s2: Vec<Vec<f64>> = p.kin.shifts.iter().map(|v| v.iter().map(|c| c * 0.5 + 0.125).collect()).collect();
            sut::sample_f64(s, x, sut::edge_data::<D>(&g.massive, &m2, &s2), None, debug, meta)
        }
        _ => {
            let xa: Vec<f64> = (0..aux.get_dimension()).map(|i| x[i % x.len()]).collect();
            sut::sample_f64(aux, &xa, sut::edge_data::<D>(&[true, true], &[1.0, 0.7], &[vec![0.25; D], vec![0.0; D]]), None, debug, meta)
        }
    };
    match r {
        Ok(o) => o.bits(),
        Err(e) => full_bits(&Err(e)),
    }
}

fn check_d<const D: usize>(c: &Case, ctx: &mut Ctx) -> Result<(), Failure> {
    let p = &c.p;
    let g = &p.g;
    let aux_graph = crate::oracle::graph::G { edges: vec![(0, 1), (1, 0)], massive: vec![true, true], weights: vec![D as f64 / 2.0 + 0.25, 0.75], externals: vec![0, 1], d: D };
    let aux = match sut::build::<D>(&aux_graph, vec![vec![1], vec![-1]]) {
        Ok(s) => s,
        Err(e) => fail!("aux-build", "auxiliary bubble rejected: {e:?}"),
    };
    let mut var_model: BTreeMap<(u8, usize), Vec<u64>> = BTreeMap::new();
    let mut const_model: BTreeMap<(bool, usize), Vec<u64>> = BTreeMap::new();
    let orig = match sut::build::<D>(g, p.kin.sig.clone()) {
        Ok(s) => s,
        Err(BuildErr::Rejected(_)) | Err(BuildErr::Panic(_)) => {
            ctx.label("skip:not-built");
            return Ok(());
        }
    };
    let dim = orig.get_dimension();
    let mut cur: SampleGenerator<D> = orig.clone();
    let snapshot0 = serde_json::to_string(&orig).unwrap_or_default();
    let mut model: BTreeMap<(usize, bool), Vec<u64>> = BTreeMap::new();
    // neighbours: keyed by the exact bit pattern of the derived point
    let mut near_model: BTreeMap<Vec<u64>, (Vec<f64>, Vec<u64>)> = BTreeMap::new();
    let mut settings_seen = std::collections::BTreeSet::new();
    let mut bursts = 0;
    for (step, op) in c.ops.iter().enumerate() {
        match op {
            Op::SampleX { pt, meta, debug, stab } => {
                settings_seen.insert((*meta, *debug, *stab));
                let got = result_bits::<D>(&cur, p, &c.points[*pt], *meta, *debug, *stab);
                if got == vec![0xE004] {
                    fail!("sample-panic", "step {step}: sampling panicked; case {c:?}");
                }
                let e = model.entry((*pt, *stab)).or_insert_with(|| got.clone());
                if *e != got {
                    fail!("history-dependence", "step {step} ({op:?}): result for point {pt} differs from the first observation of the same point (flags must not matter, history must not matter); case {c:?}");
                }
            }
            Op::SampleRng { seed, meta, debug } => {
                settings_seen.insert((*meta, *debug, false));
                // every eighth stream contains an exact 0.0 (a legal output of gen::<f64>(), probability 2^-53 per draw)
                let zero_at = if seed % 8 == 0 { Some((seed >> 8) as usize % (dim + 1)) } else { None };
                let mut rng = ZeroInjectRng { inner: rand::rngs::StdRng::seed_from_u64(*seed), count: 0, zero_at };
                let mut twin = rng.clone();
                let x: Vec<f64> = (0..dim).map(|_| twin.gen::<f64>()).collect();
                let ed = sut::edge_data::<D>(&g.massive, &p.kin.masses, &p.kin.shifts);
                let st = sut::settings(None, *debug, *meta);
                let r = std::panic::catch_unwind(std::panic::AssertUnwindSafe(|| if *debug { cur.generate_sample_from_rng(ed, &st, &mut rng, &Cap::default()) } else { cur.generate_sample_from_rng(ed, &st, &mut rng, &NoLog) }));
                let via_rng: Vec<u64> = match r {
                    Ok(Ok(res)) => sut::out_of(&res, None).bits(),
                    Ok(Err(e)) => full_bits(&Err(sut::classify(&format!("{e:?}")))),
                    Err(_) => fail!("sample-panic", "step {step}: generate_sample_from_rng panicked: {}", engine::take_panic()),
                };
                let via_x = result_bits::<D>(&cur, p, &x, *meta, *debug, false);
                if via_rng != via_x {
                    fail!("rng-vs-x-space", "step {step}: generate_sample_from_rng(seed {seed}) differs from generate_sample_from_x_space_point on the first get_dimension()={dim} numbers of the same stream; case graph {g:?}");
                }
                if rng.next_u64() != twin.next_u64() {
                    fail!("rng-draw-count", "step {step}: after generate_sample_from_rng the generator is not in the state reached by drawing exactly get_dimension()={dim} numbers");
                }
            }
            Op::SampleNear { pt, coord, ulps, meta, debug } => {
                settings_seen.insert((*meta, *debug, false));
                let mut x = c.points[*pt].clone();
                if *coord < x.len() {
                    let moved = gen::ulp_step(x[*coord], *ulps);
                    if moved < 1.0 {
                        x[*coord] = moved;
                    }
                }
                let key: Vec<u64> = x.iter().map(|v| v.to_bits()).collect();
                let got = result_bits::<D>(&cur, p, &x, *meta, *debug, false);
                if got == vec![0xE004] {
                    fail!("sample-panic", "step {step}: sampling panicked; case {c:?}");
                }
                let e = near_model.entry(key).or_insert_with(|| (x.clone(), got.clone()));
                if e.1 != got {
                    fail!("history-dependence", "step {step} ({op:?}): a point sampled before now gives a different result; case {c:?}");
                }
            }
            Op::UseClone => {
                cur = cur.clone();
            }
            Op::SampleStrict { pt, meta, debug } | Op::SampleOther { pt, meta, debug } | Op::Aux { pt, meta, debug } => {
                let variant = match op {
                    Op::SampleStrict { .. } => 0u8,
                    Op::SampleOther { .. } => 1,
                    _ => 2,
                };
                settings_seen.insert((*meta, *debug, variant == 0));
                let got = variant_bits::<D>(&cur, &aux, p, &c.points[*pt], variant, *meta, *debug);
                if got == vec![0xE004] {
                    fail!("sample-panic", "step {step} ({op:?}): sampling panicked; case {c:?}");
                }
                let e = var_model.entry((variant, *pt)).or_insert_with(|| got.clone());
                if *e != got {
                    fail!("history-dependence", "step {step} ({op:?}): the same call (variant {variant}: 0 strict tolerance, 1 other edge data, 2 auxiliary sampler) gave a different result than before; case {c:?}");
                }
            }
            Op::ConstPair { k, meta, debug } => {
                settings_seen.insert((*meta, *debug, false));
                let v = c.points[0][*k % c.points[0].len()];
                let xm = vec![v; dim];
                let xa = vec![v; aux.get_dimension()];
                let aux_call = |meta: bool, debug: bool| match sut::sample_f64(&aux, &xa, sut::edge_data::<D>(&[true, true], &[1.0, 0.7], &[vec![0.25; D], vec![0.0; D]]), None, debug, meta) {
                    Ok(o) => o.bits(),
                    Err(e) => full_bits(&Err(e)),
                };
                let seq = [result_bits::<D>(&cur, p, &xm, *meta, *debug, false), aux_call(*meta, *debug), result_bits::<D>(&cur, p, &xm, *meta, *debug, false)];
                for (i, got) in seq.iter().enumerate() {
                    if *got == vec![0xE004] {
                        fail!("sample-panic", "step {step} ({op:?}): sampling panicked; case {c:?}");
                    }
                    let e = const_model.entry((i == 1, *k % c.points[0].len())).or_insert_with(|| got.clone());
                    if e != got {
                        fail!("history-dependence", "step {step} ({op:?}), call {i} of main/auxiliary/main at the constant point {v:e}: differs from the first observation of the same call; case {c:?}");
                    }
                }
            }
            Op::Threshold { pt } => {
                let x = &c.points[*pt];
                let class = |tol: f64, meta: bool, debug: bool| -> Vec<u64> {
                    let ed = sut::edge_data::<D>(&g.massive, &p.kin.masses, &p.kin.shifts);
                    match sut::sample_f64(&cur, x, ed, Some(tol), debug, meta) {
                        Ok(o) => o.bits(),
                        Err(e) => full_bits(&Err(e)),
                    }
                };
                let is_ok = |b: &Vec<u64>| b.len() > 1;
                let hi0 = class(1e300, false, false);
                if hi0 == vec![0xE004] {
                    fail!("sample-panic", "step {step}: sampling panicked; case {c:?}");
                }
                if !is_ok(&hi0) {
                    ctx.label("threshold:not-accepted-at-any-tolerance");
                } else {
                    // positive floats are ordered like their bit patterns
                    let (mut lo, mut hi) = (0u64, 1e300f64.to_bits());
                    if is_ok(&class(0.0, false, false)) {
                        hi = 0;
                    } else {
                        while hi - lo > 1 {
                            let mid = lo + (hi - lo) / 2;
                            if is_ok(&class(f64::from_bits(mid), false, false)) {
                                hi = mid;
                            } else {
                                lo = mid;
                            }
                        }
                    }
                    let tstar = f64::from_bits(hi);
                    let below = if hi == 0 { -f64::from_bits(1) } else { f64::from_bits(hi - 1) };
                    for tol in [tstar, below] {
                        let want = class(tol, false, false);
                        for meta in [false, true] {
                            for debug in [false, true] {
                                let got = class(tol, meta, debug);
                                if got != want {
                                    fail!("flag-dependence", "step {step}: point {pt} with matrix_stability_test = Some({tol:e}) (the smallest accepting tolerance is {tstar:e}): return_metadata={meta} print_debug_info={debug} gives {} but the plain call gives {}; case {c:?}", if is_ok(&got) { "Ok" } else { "an error" }, if is_ok(&want) { "Ok" } else { "an error" });
                                }
                            }
                        }
                    }
                    if is_ok(&class(below, false, false)) {
                        fail!("threshold-not-monotone", "step {step}: tolerance {below:e} accepted although {tstar:e} was found to be the smallest accepting one");
                    }
                    ctx.label(if hi == 0 { "threshold:exact-zero-error" } else { "threshold:probed" });
                }
            }
            Op::Rebuild => {
                cur = match sut::build::<D>(g, p.kin.sig.clone()) {
                    Ok(s) => s,
                    Err(e) => fail!("rebuild-failed", "step {step}: building the same graph again failed: {e:?}"),
                };
            }
            Op::UseSerdeCopy => {
                let txt = serde_json::to_string(&cur).map_err(|e| Failure::new("serialise-failed", e.to_string()))?;
                cur = serde_json::from_str(&txt).map_err(|e| Failure::new("deserialise-failed", e.to_string()))?;
            }
            Op::Burst { threads, per, meta, debug } => {
                bursts += 1;
                settings_seen.insert((*meta, *debug, false));
                let results: Vec<Vec<(usize, Vec<u64>)>> = std::thread::scope(|sc| {
                    let hs: Vec<_> = (0..*threads)
                        .map(|ti| {
                            let cur = &cur;
                            sc.spawn(move || (0..*per).map(|k| { let pt = (ti + k) % 4; (pt, result_bits::<D>(cur, p, &c.points[pt], *meta, *debug, false)) }).collect::<Vec<_>>())
                        })
                        .collect();
                    hs.into_iter().map(|h| h.join().unwrap_or_default()).collect()
                });
                for (ti, rs) in results.iter().enumerate() {
                    if rs.len() != *per {
                        fail!("thread-panicked", "step {step}: burst thread {ti} died");
                    }
                    for (pt, got) in rs {
                        if *got == vec![0xE004] {
                            fail!("sample-panic", "step {step}: sampling panicked in a thread burst");
                        }
                        let e = model.entry((*pt, false)).or_insert_with(|| got.clone());
                        if e != got {
                            fail!("concurrency-dependence", "step {step}: thread {ti} obtained a different result for point {pt} than the model; case {c:?}");
                        }
                    }
                }
            }
        }
        // the original sampler is never modified by anything done to it or its copies
        if step % 8 == 7 || step + 1 == c.ops.len() {
            if serde_json::to_string(&orig).unwrap_or_default() != snapshot0 {
                fail!("sampler-modified", "step {step}: the sampler's serialisation changed after sampling");
            }
        }
    }
    // closing sweep: every modelled point once more on the ORIGINAL sampler, all four flag combinations
    for ((pt, stab), want) in &model {
        for meta in [false, true] {
            for debug in [false, true] {
                let got = result_bits::<D>(&orig, p, &c.points[*pt], meta, debug, *stab);
                if &got != want {
                    fail!("flag-dependence", "point {pt} (stability {stab}) with return_metadata={meta} print_debug_info={debug} differs from the model; case {c:?}");
                }
            }
        }
    }
    for ((variant, pt), want) in &var_model {
        for meta in [false, true] {
            for debug in [false, true] {
                let _ = result_bits::<D>(&orig, p, &c.points[(*pt + 1) % 4], false, false, false);
                let got = variant_bits::<D>(&orig, &aux, p, &c.points[*pt], *variant, meta, debug);
                if &got != want {
                    fail!("history-dependence", "variant {variant} of point {pt} with return_metadata={meta} print_debug_info={debug} differs from its first observation; case {c:?}");
                }
            }
        }
    }
    // constant points once more, each preceded by an unrelated point (evicts anything keyed on the previous call)
    for ((is_aux, k), want) in &const_model {
        let _ = result_bits::<D>(&orig, p, &c.points[3], false, false, false);
        let v = c.points[0][*k];
        let got = if *is_aux {
            match sut::sample_f64(&aux, &vec![v; aux.get_dimension()], sut::edge_data::<D>(&[true, true], &[1.0, 0.7], &[vec![0.25; D], vec![0.0; D]]), None, false, false) {
                Ok(o) => o.bits(),
                Err(e) => full_bits(&Err(e)),
            }
        } else {
            result_bits::<D>(&orig, p, &vec![v; dim], false, false, false)
        };
        if &got != want {
            fail!("history-dependence", "the {} sampler at the constant point {v:e} gave a different result right after the other sampler had been sampled at the same constant point than after an unrelated call: hidden state keyed on part of the arguments; case {c:?}", if *is_aux { "auxiliary" } else { "main" });
        }
    }
    // neighbours once more, on the original sampler, each preceded by an unrelated point
    for (x, want) in near_model.values() {
        let _ = result_bits::<D>(&orig, p, &c.points[3], false, false, false);
        let got = result_bits::<D>(&orig, p, x, false, false, false);
        if &got != want {
            fail!("history-dependence", "a neighbouring point (one coordinate moved by a few ulps) gave a different result when it was sampled right after its neighbour than when sampled after an unrelated point: hidden state keyed on the inputs; point {x:?}; case {c:?}");
        }
    }
    ctx.count("operations", c.ops.len() as u64);
    if settings_seen.len() >= 2 && bursts >= 1 {
        ctx.nontrivial();
    }
    Ok(())
}
pub fn check(c: &Case, ctx: &mut Ctx) -> Result<(), Failure> {
    phys::validate_opt(&c.p, true)?;
    let dim = gen::dimension(&c.p.g);
    if c.points.len() != 4 || c.points.iter().any(|x| x.len() < dim || x.iter().any(|v| !(v.is_finite() && *v >= 0.0 && *v < 1.0))) {
        fail!("bad-case", "needs 4 points in [0,1)^dim");
    }
    if c.ops.iter().any(|o| matches!(o, Op::SampleNear { pt, ulps, .. } if *pt >= 4 || ulps.abs() > 64) || matches!(o, Op::SampleStrict { pt, .. } | Op::SampleOther { pt, .. } | Op::Aux { pt, .. } if *pt >= 4) || matches!(o, Op::SampleX { pt, .. } | Op::Threshold { pt } if *pt >= 4) || matches!(o, Op::Burst { threads, per, .. } if *threads > 16 || *per > 16)) {
        fail!("bad-case", "operation out of range");
    }
    with_d!(c.p.g.d, check_d(c, ctx))
}

// ------------------------------------------------------------------ cross-process
#[derive(Serialize, Deserialize)]
struct XItem {
    p: Phys,
    points: Vec<Vec<f64>>,
}
fn sample_all(it: &XItem) -> Vec<Vec<u64>> {
    fn f<const D: usize>(it: &XItem) -> Vec<Vec<u64>> {
        match sut::build::<D>(&it.p.g, it.p.kin.sig.clone()) {
            Ok(s) => it.points.iter().flat_map(|x| [result_bits::<D>(&s, &it.p, x, true, false, false), result_bits::<D>(&s, &it.p, x, false, true, true)]).collect(),
            Err(_) => vec![vec![0xEEEE]],
        }
    }
    with_d!(it.p.g.d, f(it))
}
pub fn child_samples(input: &str) -> String {
    let items: Vec<XItem> = serde_json::from_str(input).unwrap_or_default();
    let out: Vec<Vec<Vec<u64>>> = items.iter().map(sample_all).collect();
    serde_json::to_string(&out).unwrap_or_default()
}
fn cross_process(tier: Tier, seed: u64, stats: &mut Stats) -> serde_json::Value {
    let n = tier.pick(150, 3000);
    let tapes = engine::sample_tapes("C17-xproc", seed, n * 2, 700);
    let items: Vec<XItem> = tapes.iter().filter_map(|tp| gen_case(&mut Tape::new(tp), tier)).take(n).map(|c| XItem { p: c.p, points: c.points }).collect();
    // in THIS process every sampler is preceded by building the same graph for another dimension D' (and, every third
    // time, with other externals): the fresh process builds each graph on its own
    let mine: Vec<Vec<Vec<u64>>> = items
        .iter()
        .enumerate()
        .map(|(i, it)| {
            fn b<const D: usize>(g: &crate::oracle::graph::G, sig: &[Vec<isize>]) {
                let _ = sut::build::<D>(g, sig.to_vec());
            }
            let d2 = it.p.g.d % 6 + 1;
            let mut g2 = it.p.g.clone();
            g2.d = d2;
            if i % 3 == 0 {
                g2.externals.reverse();
                g2.externals.pop();
            }
            with_d!(d2, b(&g2, &it.p.kin.sig));
            sample_all(it)
        })
        .collect();
    let input = serde_json::to_string(&items).unwrap();
    match xproc::run_child("samples", &input) {
        Err(e) => {
            stats.harness_panics.push(format!("cross-process child failed: {e}"));
            serde_json::json!({"cross_process": "child failed"})
        }
        Ok(out) => {
            let theirs: Vec<Vec<Vec<u64>>> = serde_json::from_str(out.trim()).unwrap_or_default();
            if theirs.len() != mine.len() {
                stats.harness_panics.push(format!("cross-process child returned {} results for {} cases", theirs.len(), mine.len()));
                return serde_json::json!({"cross_process": "child output unreadable"});
            }
            for i in 0..mine.len() {
                if mine[i] != theirs[i] {
                    let case = serde_json::json!({"p": items[i].p, "points": items[i].points, "ops": []});
                    stats.failures.push((Failure::new("process-dependence", format!("samples taken in a fresh process differ from the ones taken here for graph {:?}", items[i].p.g)), case));
                    break;
                }
            }
            serde_json::json!({"cross_process_samplers": mine.len(), "cross_process_samples": mine.iter().map(|m| m.len()).sum::<usize>()})
        }
    }
}

/// the same purity claims in the build of momtrop WITHOUT its `log` feature (debug output through println!):
/// a second tiny crate (harness_nolog) is built against /repo and fed generated cases
fn nolog_stage(tier: Tier, seed: u64, stats: &mut Stats) -> serde_json::Value {
    use std::io::Write;
    use std::process::{Command, Stdio};
    let root = engine::verif_root();
    let dir = root.join("harness_nolog");
    let tdir = dir.join("target");
    let b = Command::new("cargo").args(["build", "--release", "--offline"]).env("CARGO_NET_OFFLINE", "true").env("CARGO_TARGET_DIR", &tdir).current_dir(&dir).output();
    match b {
        Ok(o) if o.status.success() => {}
        Ok(o) => {
            stats.harness_panics.push(format!("no-log harness does not build: {}", engine::truncate(&String::from_utf8_lossy(&o.stderr), 600)));
            return serde_json::json!({"nolog": "build failed"});
        }
        Err(e) => {
            stats.harness_panics.push(format!("cargo not runnable for the no-log harness: {e}"));
            return serde_json::json!({"nolog": "cargo failed"});
        }
    }
    let n = tier.pick(200, 4000);
    let tapes = engine::sample_tapes("C17-nolog", seed, n * 2, 700);
    let cases: Vec<Case> = tapes.iter().filter_map(|tp| gen_case(&mut Tape::new(tp), tier)).take(n).collect();
    let items: Vec<serde_json::Value> = cases.iter().enumerate().map(|(i, c)| serde_json::json!({"p": c.p, "points": c.points, "seeds": [seed ^ (i as u64), (i as u64).wrapping_mul(0x9E3779B97F4A7C15)]})).collect();
    let report_path = tdir.join(format!("report-{}.json", std::process::id()));
    let child = Command::new(tdir.join("release").join("mtverif-nolog")).arg(&report_path).stdin(Stdio::piped()).stdout(Stdio::null()).stderr(Stdio::null()).spawn();
    let mut child = match child {
        Ok(c) => c,
        Err(e) => {
            stats.harness_panics.push(format!("no-log harness not runnable: {e}"));
            return serde_json::json!({"nolog": "spawn failed"});
        }
    };
    if let Some(mut si) = child.stdin.take() {
        let _ = si.write_all(serde_json::to_string(&items).unwrap().as_bytes());
    }
    let ok = child.wait().map(|s| s.success()).unwrap_or(false);
    let txt = std::fs::read_to_string(&report_path).unwrap_or_default();
    let _ = std::fs::remove_file(&report_path);
    if !ok || txt.is_empty() {
        stats.harness_panics.push("no-log harness crashed or wrote no report".into());
        return serde_json::json!({"nolog": "no report"});
    }
    let rep: serde_json::Value = serde_json::from_str(&txt).unwrap_or_default();
    let viol: Vec<String> = rep["violations"].as_array().map(|a| a.iter().filter_map(|v| v.as_str().map(String::from)).collect()).unwrap_or_default();
    if let Some(v) = viol.first() {
        // the index of the item is in the message; attach that case
        let idx = v.split_whitespace().nth(1).and_then(|s| s.parse::<usize>().ok()).unwrap_or(0);
        let case = cases.get(idx).map(|c| serde_json::to_value(c).unwrap()).unwrap_or_default();
        stats.failures.push((Failure::new("nolog-build-impure", format!("{v} ({} such messages)", viol.len())), case));
    }
    // cross-build comparison (reported, and asserted: both builds run the same arithmetic)
    let mut cross_diff = 0usize;
    if let Some(refs) = rep["reference"].as_array() {
        for (i, c) in cases.iter().enumerate() {
            let mine: Vec<Vec<u64>> = sample_ref(c);
            let theirs: Vec<Vec<u64>> = serde_json::from_value(refs.get(i).cloned().unwrap_or_default()).unwrap_or_default();
            if theirs.len() == mine.len() && theirs != mine {
                cross_diff += 1;
            }
        }
    }
    serde_json::json!({"nolog_build_samplers": cases.len(), "nolog_build_samples": rep["samples"], "nolog_violations": viol.len(), "log_vs_nolog_builds_with_different_bits": cross_diff})
}
fn sample_ref(c: &Case) -> Vec<Vec<u64>> {
    fn f<const D: usize>(c: &Case) -> Vec<Vec<u64>> {
        match sut::build::<D>(&c.p.g, c.p.kin.sig.clone()) {
            Ok(s) => c.points.iter().map(|x| result_bits::<D>(&s, &c.p, x, false, false, false)).collect(),
            Err(_) => vec![vec![0xEEEE]],
        }
    }
    with_d!(c.p.g.d, f(c))
}

/// supplementary tripwire (reported, not the decider): interior mutability / globals in the sources
fn source_scan() -> serde_json::Value {
    let mut hits = vec![];
    if let Ok(rd) = std::fs::read_dir("/repo/src") {
        for e in rd.flatten() {
            if let Ok(txt) = std::fs::read_to_string(e.path()) {
                for (ln, line) in txt.lines().enumerate() {
                    let code = line.split("//").next().unwrap_or("");
                    for pat in ["unsafe", "static mut", "Cell<", "RefCell", "Atomic", "Mutex", "RwLock", "thread_local", "lazy_static", "OnceCell", "OnceLock"] {
                        if code.contains(pat) {
                            hits.push(format!("{}:{}: {}", e.path().display(), ln + 1, pat));
                        }
                    }
                }
            }
        }
    }
    serde_json::json!(hits)
}

pub fn run(tier: Tier, seed: u64) -> i32 {
    let t0 = Instant::now();
    let sp = Spec { id: "C17", rule: RULE, tape_len: 700, cases: tier.pick(3_000, 60_000), gen: gen_case, check, max_shrink_iters: 1500, shards: 16 };
    let mut stats = engine::run_spec(&sp, tier, seed);
    engine::run_regressions::<Case>("C17", check, &mut stats);
    let mut extra = cross_process(tier, seed, &mut stats);
    let nl = nolog_stage(tier, seed, &mut stats);
    if let (Some(a), Some(b)) = (extra.as_object_mut(), nl.as_object()) {
        for (k, v) in b {
            a.insert(k.clone(), v.clone());
        }
    }
    extra["source_scan_interior_mutability_hits"] = source_scan();
    engine::finish("C17", tier, seed, RULE, stats, t0, extra, &["thread schedules are sampled by real concurrent execution, not enumerated; the absence of interior mutability in the sources (scan reported in the evidence) is the argument that no interleaving can matter", "the build without the `log` feature (println! path) is exercised by a second crate (harness_nolog) on generated cases: flag independence, rng equivalence, and bit-equality with the `log` build"])
}
pub fn replay(path: &str) -> i32 {
    engine::replay_file::<Case>("C17", path, check)
}
