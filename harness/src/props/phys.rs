//! Shared evaluation of one sampling case (accepted connected graph + kinematics + point):
//! runs the sampler with metadata and debug log, builds every oracle quantity the properties C02, C07–C11 need.
use crate::engine::{Ctx, Failure};
use crate::fail;
use crate::gen::{self, Phys};
use crate::oracle::graph::{q, qf, Q};
use crate::oracle::lin::{self, QMat};
use crate::oracle::path::{self, PathSim};
use crate::oracle::sym::Sym;
use crate::sut::{self, BuildErr, Out, SutErr, Table};
use num::{Signed, Zero};

/// safety factor of every condition-scaled tolerance (DESIGN.md §3)
pub const K: f64 = 1000.0;
pub const EPS: f64 = f64::EPSILON;
const LN_RANGE: f64 = 575.0; // ln(1e250)

#[derive(Clone)]
pub struct Eval {
    /// the stability setting the evaluation ran with
    pub stab: Option<f64>,
    pub ne: usize,
    pub nl: usize,
    pub dod: f64,
    pub tab: Table,
    pub out: Out,
    pub sym: Sym,
    pub omega_ref: Vec<f64>,
    pub j_ref: Vec<f64>,
    pub path: PathSim,
    /// oracle-side magnitude guard: every intermediate the algorithm needs lies in [1e-250, 1e250]
    pub in_range: bool,
    /// the Gamma coordinate is large enough for the true quantile to be >= 1e-13 (the domain on which C12 promises an accurate draw)
    pub lambda_in_range: bool,
    /// logged parameters: after / before the rescaling
    pub xs: Vec<f64>,
    pub x0: Vec<f64>,
    pub params_ok: bool,
    pub lq: QMat,
    pub detq: Q,
    pub invq: QMat,
    pub kappa: f64,
    pub u_or: f64,
    pub v_or: f64,
    pub a_term: f64,
    pub cv: f64,
    pub tau_u: f64,
    pub tau_v: f64,
}

pub fn validate(c: &Phys) -> Result<(usize, usize), Failure> {
    validate_opt(c, false)
}
/// `allow_disconnected`: for the properties whose oracle does not need connectivity (C13, C14, C17, C18)
pub fn validate_opt(c: &Phys, allow_disconnected: bool) -> Result<(usize, usize), Failure> {
    let g = &c.g;
    let ne = g.nedges();
    if ne == 0 || ne > 18 || !(1..=6).contains(&g.d) || g.massive.len() != ne || g.weights.len() != ne {
        fail!("bad-case", "graph outside the generator's domain");
    }
    if !g.is_connected() && !allow_disconnected {
        fail!("bad-case", "graph not connected");
    }
    let nl = g.num_loops();
    if nl == 0 || c.kin.sig.len() != ne || c.kin.sig.iter().any(|r| r.len() != nl) || c.kin.shifts.len() != ne || c.kin.shifts.iter().any(|s| s.len() != g.d) || c.kin.masses.len() != ne {
        fail!("bad-case", "kinematics do not fit the graph");
    }
    if c.x.len() < gen::dimension(g) || c.x.iter().any(|v| !(v.is_finite() && *v >= 0.0 && *v < 1.0)) {
        fail!("bad-case", "point outside [0,1)^dim");
    }
    Ok((ne, nl))
}

pub fn ln_guard(sym: &Sym, lnx0: &[f64], d: usize, nl: usize, dod: f64) -> (bool, f64) {
    let ln_ut0 = sym.ln_u_trop(lnx0);
    let ln_ft0 = sym.ln_f_trop(lnx0);
    let ln_vt0 = ln_ft0 - ln_ut0;
    let dh = d as f64 / 2.0;
    let ln_target = -dh * ln_ut0 - dod * ln_vt0;
    let ln_s = ln_target / (dh * nl as f64 + dod);
    let mut mags = vec![ln_ut0, ln_ut0 + ln_vt0, ln_vt0, dh * ln_ut0, dod * ln_vt0, ln_target, ln_s];
    for &l in lnx0 {
        mags.push(l);
        mags.push(l + ln_s);
    }
    let ln_utr = ln_ut0 + nl as f64 * ln_s;
    let ln_vtr = ln_vt0 + ln_s;
    mags.push(dh * ln_utr);
    mags.push(dod * ln_vtr);
    mags.push(dh * (ln_utr + sym.n_trees().ln()));
    mags.push(dod * (ln_vtr + sym.c_sum().ln()));
    mags.push(dod * (ln_vtr + (sym.c_min() / sym.n_trees()).ln()));
    // Gram-type products up to nl factors appear in the determinant
    let (mn, mx) = lnx0.iter().fold((f64::INFINITY, f64::NEG_INFINITY), |(a, b), &l| (a.min(l + ln_s), b.max(l + ln_s)));
    mags.push(nl as f64 * mn);
    mags.push(nl as f64 * mx);
    let worst = mags.iter().fold(0.0f64, |a, &m| if m.is_nan() { f64::INFINITY } else { a.max(m.abs()) });
    (worst <= LN_RANGE, ln_s)
}

/// None = the case was legitimately skipped (labelled in ctx)
pub fn evaluate<const D: usize>(c: &Phys, ctx: &mut Ctx, stab: Option<f64>) -> Result<Option<Eval>, Failure> {
    let (ne, nl) = validate_opt(c, true)?;
    let g = &c.g;
    // the properties hold for every setting of the stability test under which a sample is returned: a fifth of the
    // cases run with the test on, tolerance 1e-6 or a tight 10^-(13..16) that refuses part of the samples
    let hs = c.x.iter().fold(7u64, |a, v| a.wrapping_mul(1_000_003).wrapping_add(v.to_bits()));
    let stab = stab.or_else(|| match hs % 10 {
        3 => Some(1e-6),
        7 => Some(10f64.powi(-13 - ((hs >> 8) % 4) as i32)),
        _ => None,
    });
    if let Some(tl) = stab {
        ctx.label(format!("stability-test:Some({tl:e})"));
    }
    let s = match sut::build::<D>(g, c.kin.sig.clone()) {
        Ok(s) => s,
        Err(BuildErr::Rejected(_)) => {
            ctx.label("skip:sut-rejected-graph");
            return Ok(None);
        }
        Err(BuildErr::Panic(_)) => {
            ctx.label("skip:build-panic");
            return Ok(None);
        }
    };
    // every fourth case samples through a sampler restored from its JSON serialisation: the properties hold for
    // "a sampler", however it was obtained
    let hx = c.x.iter().fold(0u64, |a, v| a.wrapping_mul(31).wrapping_add(v.to_bits()));
    let s = if hx % 4 == 1 {
        ctx.label("sampler:restored-from-json");
        match serde_json::to_string(&s).ok().and_then(|t| serde_json::from_str(&t).ok()) {
            Some(r) => r,
            None => s,
        }
    } else {
        s
    };
    let tab = match sut::table_of(&s) {
        Ok(t) => t,
        Err(e) => fail!("table-unreadable", "{e}"),
    };
    let dod = g.dod();
    let reft = g.table_f64();
    let omega_ref: Vec<f64> = reft.iter().map(|e| e.2).collect();
    let j_ref = g.j_f64(&omega_ref);
    let path = path::simulate(ne, &omega_ref, &j_ref, &c.x, 64.0 * ne as f64 * EPS);
    let sym = Sym::new(g, &c.kin.inflow, &c.kin.masses);
    if !sym.f_nonzero() {
        fail!("bad-case", "F vanishes identically (no scale)");
    }
    let (mut in_range, _) = ln_guard(&sym, &path.lnx0, D, nl, dod);
    if c.classes.iter().any(|s| s.starts_with("mass-given:")) {
        // edge data that contradicts the mass flags: the sampler's tropical quantities (and with them the size of
        // its rescaling) follow the FLAGS, so the magnitude guard must hold for that view of the graph as well
        let flag_masses: Vec<f64> = g.massive.iter().map(|&m| if m { 1.0 } else { 0.0 }).collect();
        let sym_flags = Sym::new(g, &c.kin.inflow, &flag_masses);
        in_range &= sym_flags.f_nonzero() && ln_guard(&sym_flags, &path.lnx0, D, nl, dod).0;
    }
    let lambda_in_range = c.x[2 * ne - 2] >= crate::oracle::gamma::pq(dod, 1e-13).0.max(1e-300);
    // every fourth case: the same sampler object has been used before with OTHER edge data (some shifts exactly zero,
    // the others halved and displaced, masses scaled) and with the debug and metadata flags off; a sampler is a pure
    // function of its arguments, so the call under test must not notice
    if hx % 4 == 2 {
        ctx.label("history:earlier-call-with-other-edge-data");
        let m2: Vec<f64> = c.kin.masses.iter().map(|m| m * 1.5).collect();
        let s2: Vec<Vec<f64>> = c.kin.shifts.iter().enumerate().map(|(e, v)| if (hx >> (8 + e)) & 1 == 1 { vec![0.0; v.len()] } else { v.iter().map(|a| a * 0.5 + 0.125).collect() }).collect();
        let _ = sut::sample_f64(&s, &c.x, sut::edge_data::<D>(&c.mass_given(), &m2, &s2), stab, false, false);
    }
    let ed = sut::edge_data::<D>(&c.mass_given(), &c.kin.masses, &c.kin.shifts);
    let out = match sut::sample_f64(&s, &c.x, ed, stab, true, true) {
        Ok(o) => o,
        Err(SutErr::Panic(m)) => fail!("sample-panic", "sampling panicked ({m}) on an accepted graph at a point of [0,1)^dim: {c:?}"),
        Err(SutErr::Gamma) => {
            ctx.label("skip:gamma-error");
            return Ok(None);
        }
        Err(SutErr::ZeroDet) => {
            ctx.label(if in_range { "skip:zero-det(in-range)" } else { "skip:zero-det(out-of-range)" });
            return Ok(None);
        }
        Err(SutErr::Unstable) => {
            ctx.label("skip:unstable");
            return Ok(None);
        }
    };
    let log = out.log.clone().unwrap_or_default();
    if !log.complete || log.x.len() != ne || log.x0.len() != ne {
        ctx.label("skip:debug-log-incomplete");
        return Ok(None);
    }
    let xs = log.x.clone();
    let x0 = log.x0.clone();
    let params_ok = xs.iter().chain(x0.iter()).all(|v| v.is_finite() && *v > 0.0);
    if !params_ok {
        if in_range && path.min_gap > 1e-9 {
            fail!("params-nonfinite", "the oracle predicts every intermediate within [1e-250,1e250] but the logged Feynman parameters are {xs:?} (unrescaled {x0:?}) for {c:?}");
        }
        ctx.label("skip:params-nonfinite(out-of-range)");
        return Ok(None);
    }
    // exact L matrix from the logged parameters
    let sig = &c.kin.sig;
    let mk = |absval: bool| -> QMat {
        (0..nl)
            .map(|i| {
                (0..nl)
                    .map(|j| {
                        (0..ne).fold(Q::zero(), |acc, e| {
                            let c_ = sig[e][i] * sig[e][j];
                            let c_ = if absval { c_.abs() } else { c_ };
                            acc + q(xs[e]) * q(c_ as f64)
                        })
                    })
                    .collect()
            })
            .collect()
    };
    let lq = mk(false);
    let labs = mk(true);
    let Some((detq, invq)) = lin::det_inv(&lq) else {
        fail!("bad-case", "signature is not a cycle basis (exact L singular)");
    };
    if !detq.is_positive() {
        fail!("bad-case", "exact det L not positive");
    }
    let kappa = lin::fro(&labs) * lin::fro(&invq);
    let u_or = sym.u(&xs);
    let v_or = sym.v(&xs);
    let a_term: f64 = (0..ne).map(|e| xs[e] * (c.kin.masses[e] * c.kin.masses[e] + c.kin.shifts[e].iter().map(|a| a * a).sum::<f64>())).sum();
    let cv = ((2.0 * a_term - v_or).max(v_or) / v_or).max(1.0);
    let tau_u = K * EPS * kappa;
    // the external momenta and the shifts are f64 roundings of one ideal kinematic configuration: each momentum
    // through a cut is uncertain by the conservation defect plus a few ulps of the largest momenta involved, which
    // matters when a cut momentum is a small difference of large external momenta
    let smax: f64 = c.kin.shifts.iter().map(|s| s.iter().map(|a| a.abs()).sum::<f64>()).fold(0.0, f64::max);
    let delta = sym.defect + 8.0 * EPS * (sym.pabs + smax);
    let kin_rel = {
        let f = sym.f(&xs);
        if f > 0.0 { 4.0 * sym.f_kin_err(&xs, delta) / f } else { 0.0 }
    };
    let tau_v = K * EPS * kappa * cv + kin_rel;
    Ok(Some(Eval { stab, ne, nl, dod, tab, out, sym, omega_ref, j_ref, path, in_range, lambda_in_range, xs, x0, params_ok, lq, detq, invq, kappa, u_or, v_or, a_term, cv, tau_u, tau_v }))
}

pub fn rel(a: f64, b: f64) -> f64 {
    if a == b {
        0.0
    } else {
        ((a - b) / b).abs()
    }
}

/// exact (rational) vector helper: q_e = sum_l s_el k_l + p_e
pub fn edge_momentum(sig: &[Vec<isize>], shifts: &[Vec<f64>], k: &[Vec<f64>], e: usize, d: usize) -> Vec<f64> {
    let mut qe = shifts[e].clone();
    for l in 0..k.len() {
        for i in 0..d {
            qe[i] += sig[e][l] as f64 * k[l][i];
        }
    }
    qe
}

pub fn qvec(v: &[f64]) -> Vec<Q> {
    v.iter().map(|&x| q(x)).collect()
}
pub fn to_f(v: &Q) -> f64 {
    qf(v)
}

pub fn classes_label(c: &Phys, ctx: &mut Ctx) {
    for cl in &c.classes {
        if cl.starts_with("mass-given:") {
            ctx.label("edge-data:contradicts-the-mass-flags");
        } else {
            ctx.label(format!("point:{cl}"));
        }
    }
    ctx.label(format!("L={}", c.g.num_loops()));
    ctx.label(format!("D={}", c.g.d));
}
