//! C12 — the Gamma quantile is positive and accurate; failures are errors, not values.
use super::phys;
use crate::engine::{self, take_panic, Ctx, Failure, Spec, Tape, Tier};
use crate::fail;
use crate::gen::{self, Phys, PhysOpts, ONE_M, TWO_M53};
use crate::oracle::gamma::{gamma_fn, pq};
use crate::sut::{self, BuildErr, SutErr};
use crate::with_d;
use serde::{Deserialize, Serialize};
use std::panic::{catch_unwind, AssertUnwindSafe};
use std::time::Instant;

pub const RULE: &str = "cases (quantile) = shape a log-uniform in [0.05,100] plus special shapes (1+-1e-8 and neighbours, 0.3 and its neighbours, 0.05, 100, half-integers), p from {uniform, k*2^-53, 1-2^-k, 10^-4..-300, 0, below the 1e-13 quantile, at the branch thresholds of the starting-value selection b=q*Gamma(a) in {0.6,0.45,0.35,0.15,0.01,1e-28}}, plus a second p' for the monotonicity pair. oracle (own series / continued fraction for P and Q): result is Err or finite > 0; if p>0 and p >= P(a,1e-13) it must be Ok with |P(a,lambda)-p| <= 2e-8 (Q form for p>=1/2); P(a,lambda) <= P(a,lambda')+4e-8 for p<p'; no panic. cases (link) = accepted graphs sampled at points with Gamma-coordinate tails: Metadata.lambda must be bit-identical to inverse_gamma_lr(dod, x[2E-2], 50, 5.0) and a GammaError of one is a GammaError of the other. non-trivial (quantile) = a value is required and a is not one of the unit-test shapes {0.5,1,2,10}; (link) = L>=2 or E>=3; distinct = distinct case encodings";

#[derive(Clone, Debug, Serialize, Deserialize)]
pub struct Case {
    pub a: f64,
    pub p: f64,
    pub p2: f64,
    #[serde(default)]
    pub class: String,
}

fn special_a(t: &mut Tape) -> f64 {
    *t.pick(&[
        1.0,
        1.0 - 1e-8,
        1.0 + 1e-8,
        1.0 - 1.0000001e-8,
        1.0 + 1.0000001e-8,
        1.0 - 0.9999999e-8,
        1.0 + 0.9999999e-8,
        1.0 - 1e-9,
        1.0 + 1e-9,
        1.0 - 2e-8,
        1.0 + 2e-8,
        0.3,
        0.29999999999999993,
        0.30000000000000004,
        0.05,
        100.0,
        0.5,
        1.5,
        2.0,
        2.5,
        10.0,
        0.12321144461531054,
        0.1,
        0.2,
        0.9,
        0.99,
        1.01,
        1.1,
        3.0,
        50.0,
    ])
}

pub fn gen_p(t: &mut Tape, a: f64) -> (f64, &'static str) {
    match t.weighted(&[0.23, 0.07, 0.09, 0.1, 0.02, 0.12, 0.2, 0.13, 0.04]) {
        8 => {
            // the very bottom of the f64 range (subnormal probabilities) and the two sides of p = 1/2
            let v = *t.pick(&[5e-324, 1e-323, 1e-320, 1e-310, 2.2250738585072014e-308, 1e-305, 0.5, 0.49999999999999994, 0.5000000000000001, 0.4999999999999999, 0.5000000000000002]);
            (v, "p:subnormal-or-half")
        }
        7 => {
            // p = P(a, x*) for x* next to a distinguished abscissa (shape, mode, shape +- sqrt, multiples):
            // the region where the asymptotic starting value w is closest to a
            let x0 = *t.pick(&[a, a, (a - 1.0).max(1e-3), a + a.sqrt(), (a - a.sqrt()).max(1e-3), 3.0 * a, 0.5 * a, a - 1.0 / 3.0]);
            let x0 = x0.max(1e-6);
            let d = if t.bool() { 0.0 } else { 10f64.powf(-t.uniform(2.0, 12.0)) * if t.bool() { 1.0 } else { -1.0 } };
            (pq(a, x0 * (1.0 + d)).0, "p:cdf-of-distinguished-point")
        }
        0 => (t.unit(), "p:uniform"),
        1 => (t.below(64) as f64 * TWO_M53, "p:k*2^-53"),
        2 => (1.0 - 0.5f64.powi(t.range(1, 53) as i32), "p:1-2^-k"),
        3 => (10f64.powf(-t.uniform(4.0, 300.0)), "p:10^-e"),
        4 => (0.0, "p:0"),
        5 => {
            let p0 = pq(a, 1e-13).0;
            (p0 * t.uniform(0.0, 2.0), "p:around-1e-13-quantile")
        }
        _ => {
            // p such that b = (1-p) Gamma(a) sits next to a branch threshold
            let ga = gamma_fn(a);
            // for a > 1 the large-quantile branch switches at b = 10^-max(2, a(a-1))
            let dd_ = (a * (a - 1.0)).max(2.0);
            let b0 = *t.pick(&[0.6, 0.45, 0.35, 0.15, 0.01, 1e-28, 1e-7, 10f64.powf(-dd_), 10f64.powf(-dd_)]);
            let b = b0 * (1.0 + t.uniform(-1e-3, 1e-3) * (t.below(3) as f64));
            let p = 1.0 - b / ga;
            if p >= 0.0 && p < 1.0 {
                (p, "p:branch-threshold")
            } else {
                (t.unit(), "p:uniform")
            }
        }
    }
}

pub fn gen_case(t: &mut Tape, _tier: Tier) -> Option<Case> {
    let a = match t.weighted(&[0.45, 0.3, 0.25]) {
        0 => (t.uniform(0.05f64.ln(), 100f64.ln())).exp().clamp(0.05, 100.0),
        1 => special_a(t),
        _ => {
            // log-scale neighbourhoods of the algorithm's special shapes (1, 0.3) and of the domain ends
            let c = *t.pick(&[1.0, 1.0, 1.0, 0.3, 0.05, 100.0, 0.5, 2.0]);
            let d = 10f64.powf(-t.uniform(1.0, 15.0));
            let a = if t.bool() { c * (1.0 + d) } else { c * (1.0 - d) };
            a.clamp(0.05, 100.0)
        }
    };
    let (p, cl) = gen_p(t, a);
    let p2 = if t.bool() { (p + t.unit() * (1.0 - p)).min(ONE_M) } else { gen_p(t, a).0 };
    Some(Case { a, p: p.clamp(0.0, ONE_M), p2: p2.clamp(0.0, ONE_M), class: cl.to_string() })
}

#[derive(Debug, Clone, Copy, PartialEq)]
pub enum QRes {
    Ok(f64),
    Err,
}
pub fn call(a: f64, p: f64) -> Result<QRes, String> {
    match catch_unwind(AssertUnwindSafe(|| momtrop::gamma::inverse_gamma_lr(&a, &p, 50, &5.0))) {
        Ok(Ok(v)) => Ok(QRes::Ok(v)),
        Ok(Err(_)) => Ok(QRes::Err),
        Err(_) => Err(take_panic()),
    }
}

/// coarse label of the starting-value branch (predicates re-derived from the algorithm of DiDonato & Morris)
fn branch(a: f64, p: f64) -> &'static str {
    let q = 1.0 - p;
    if (1.0 - 1.0e-8..=1.0 + 1.0e-8).contains(&a) {
        return "branch:a~1(exponential)";
    }
    let b = q * gamma_fn(a);
    if a < 1.0 {
        if b > 0.6 || (b >= 0.45 && a >= 0.3) {
            if b * q > 10e-8 {
                "branch:a<1,A(power)"
            } else {
                "branch:a<1,A(exp)"
            }
        } else if a < 0.3 && (0.35..=0.6).contains(&b) {
            "branch:a<1,B"
        } else if (0.15..=0.35).contains(&b) || ((0.15..0.45).contains(&b) && a >= 0.3) {
            "branch:a<1,C"
        } else if 0.01 < b && b < 0.15 {
            "branch:a<1,D"
        } else if b <= 1e-28 {
            "branch:a<1,E(early-return)"
        } else if b <= 0.01 {
            "branch:a<1,E"
        } else {
            "branch:a<1,none(x0=0.5)"
        }
    } else if p < 0.5 {
        "branch:a>=1,p<0.5"
    } else if p > 0.5 {
        "branch:a>=1,p>0.5"
    } else {
        "branch:a>=1,p=0.5"
    }
}

/// (value required?, check) of a single (a,p)
fn check_one(a: f64, p: f64, ctx: &mut Ctx) -> Result<(bool, Option<f64>), Failure> {
    let res = match call(a, p) {
        Ok(r) => r,
        Err(m) => fail!("gamma-panic", "inverse_gamma_lr({a:e}, {p:e}, 50, 5.0) panicked: {m}"),
    };
    // the routine is generic over the user's scalar: with a wider type it must return the same f64 quantile
    {
        use crate::scalars::dd::DD;
        let wide = catch_unwind(AssertUnwindSafe(|| momtrop::gamma::inverse_gamma_lr(&DD::f(a), &DD::f(p), 50, &DD::f(5.0))));
        let same = match (&wide, &res) {
            (Ok(Ok(v)), QRes::Ok(w)) => v.hi.to_bits() == w.to_bits() && v.lo == 0.0,
            (Ok(Err(_)), QRes::Err) => true,
            _ => false,
        };
        if !same {
            fail!("user-scalar-differs", "inverse_gamma_lr({a:e}, {p:e}, 50, 5.0) gives {res:?} with f64 but {:?} with a double-double scalar holding the same numbers", wide.map(|r| r.map(|v| (v.hi, v.lo)).map_err(|_| "GammaError")).map_err(|_| "panic"));
        }
    }
    let p_floor = pq(a, 1e-13).0;
    let required = p > 0.0 && p >= p_floor * (1.0 + 1e-9);
    match res {
        QRes::Err => {
            if required {
                fail!("error-where-value-required", "inverse_gamma_lr({a:e}, {p:e}) returned Err although the true quantile is >= 1e-13 (P(a,1e-13) = {p_floor:e})");
            }
            ctx.label("result:err(allowed)");
            Ok((false, None))
        }
        QRes::Ok(l) => {
            if !(l.is_finite() && l > 0.0) {
                let sig = if l == 0.0 { "returned-zero" } else if l < 0.0 { "returned-negative" } else { "returned-nonfinite" };
                fail!(sig, "inverse_gamma_lr({a:e}, {p:e}) returned Ok({l:e}) which is not a finite positive number (bits {:#x})", l.to_bits());
            }
            if required {
                let (pp, qq) = pq(a, l);
                let err = if p >= 0.5 { (qq - (1.0 - p)).abs() } else { (pp - p).abs() };
                ctx.max("abs_P_error_over_2e-8", err / 2e-8);
                if !(err <= 2e-8) {
                    fail!("inaccurate-quantile", "inverse_gamma_lr({a:e}, {p:e}) = {l:e} but P(a,lambda) = {pp:e}, Q = {qq:e}: |error| = {err:e} > 2e-8");
                }
            } else {
                ctx.label("result:ok(below-1e-13-quantile)");
            }
            Ok((required, Some(l)))
        }
    }
}

pub fn check(c: &Case, ctx: &mut Ctx) -> Result<(), Failure> {
    if !(c.a >= 0.05 && c.a <= 100.0 && c.p >= 0.0 && c.p < 1.0 && c.p2 >= 0.0 && c.p2 < 1.0) {
        fail!("bad-case", "(a,p) outside [0.05,100] x [0,1)");
    }
    ctx.label(branch(c.a, c.p));
    if !c.class.is_empty() {
        ctx.label(c.class.clone());
    }
    let (req1, l1) = check_one(c.a, c.p, ctx)?;
    let (req2, l2) = check_one(c.a, c.p2, ctx)?;
    if req1 && req2 {
        let (lo, hi, llo, lhi) = if c.p <= c.p2 { (c.p, c.p2, l1.unwrap(), l2.unwrap()) } else { (c.p2, c.p, l2.unwrap(), l1.unwrap()) };
        let (plo, phi) = (pq(c.a, llo).0, pq(c.a, lhi).0);
        if !(plo <= phi + 4e-8) {
            fail!("not-monotone", "a={:e}: p={lo:e} -> lambda={llo:e} (P={plo:e}) but p'={hi:e} -> lambda'={lhi:e} (P={phi:e})", c.a);
        }
        ctx.label("monotone-pair-checked");
    }
    if req1 && ![0.5, 1.0, 2.0, 10.0].contains(&c.a) {
        ctx.nontrivial();
    }
    Ok(())
}

// ------------------------------------------------------------------ link to sampling
pub fn gen_link(t: &mut Tape, tier: Tier) -> Option<Phys> {
    let mo = if t.bool() { 1.0 / 64.0 } else { 0.15 };
    gen::gen_phys(t, &PhysOpts { max_e: tier.pick(7, 8), max_l: 4, min_omega: mo, dmax: 6, max_ops: 1, profile: gen::PointProfile { lambda_tail: 0.5, ..gen::MODERATE } })
}
fn link_d<const D: usize>(c: &Phys, ctx: &mut Ctx) -> Result<(), Failure> {
    let (ne, nl) = phys::validate(c)?;
    let g = &c.g;
    let s = match sut::build::<D>(g, c.kin.sig.clone()) {
        Ok(s) => s,
        Err(BuildErr::Rejected(_)) | Err(BuildErr::Panic(_)) => {
            ctx.label("skip:not-built");
            return Ok(());
        }
    };
    let dod = s.get_dod();
    let pl = c.x[2 * ne - 2];
    let direct = match catch_unwind(AssertUnwindSafe(|| momtrop::gamma::inverse_gamma_lr(&dod, &pl, 50, &5.0))) {
        Ok(Ok(v)) => QRes::Ok(v),
        Ok(Err(_)) => QRes::Err,
        Err(_) => fail!("gamma-panic", "inverse_gamma_lr({dod:e}, {pl:e}) panicked: {}", take_panic()),
    };
    let ed = sut::edge_data::<D>(&g.massive, &c.kin.masses, &c.kin.shifts);
    match sut::sample_f64(&s, &c.x, ed, None, false, true) {
        Ok(o) => {
            let Some(md) = o.meta else { fail!("no-metadata", "no metadata") };
            match direct {
                QRes::Ok(v) if v.to_bits() == md.lambda.to_bits() => {}
                other => fail!("lambda-link", "sample used lambda = {:e} but inverse_gamma_lr(dod={dod:e}, x[2E-2]={pl:e}, 50, 5.0) = {other:?}; case {c:?}", md.lambda),
            }
            if !(md.lambda.is_finite() && md.lambda > 0.0) {
                fail!("lambda-not-positive", "a sample was returned with lambda = {:e}", md.lambda);
            }
            ctx.label("link:lambda-bit-identical");
        }
        Err(SutErr::Gamma) => {
            if direct != QRes::Err {
                fail!("lambda-link-error", "sample failed with GammaError but inverse_gamma_lr(dod={dod:e}, x[2E-2]={pl:e}) = {direct:?}");
            }
            ctx.label("link:both-gamma-error");
        }
        Err(SutErr::Panic(m)) => fail!("sample-panic", "sampling panicked: {m}; case {c:?}"),
        Err(_) => {
            // matrix errors are reported before the gamma draw
            ctx.label("skip:matrix-error");
            return Ok(());
        }
    }
    if nl >= 2 || ne >= 3 {
        ctx.nontrivial();
    }
    Ok(())
}
pub fn check_link(c: &Phys, ctx: &mut Ctx) -> Result<(), Failure> {
    phys::validate(c)?;
    with_d!(c.g.d, link_d(c, ctx))
}

/// one replay file format for both kinds of case
#[derive(Clone, Debug, Serialize, Deserialize)]
#[serde(untagged)]
pub enum Any {
    Quantile(Case),
    Link(Phys),
}
pub fn check_any(c: &Any, ctx: &mut Ctx) -> Result<(), Failure> {
    match c {
        Any::Quantile(q) => check(q, ctx),
        Any::Link(p) => check_link(p, ctx),
    }
}

pub fn run(tier: Tier, seed: u64) -> i32 {
    let t0 = Instant::now();
    let sp = Spec { id: "C12", rule: RULE, tape_len: 24, cases: tier.pick(2_000_000, 40_000_000), gen: gen_case, check, max_shrink_iters: 4000, shards: 16 };
    let mut stats = engine::run_spec(&sp, tier, seed);
    let sp2 = Spec { id: "C12", rule: RULE, tape_len: 260, cases: tier.pick(20_000, 300_000), gen: gen_link, check: check_link, max_shrink_iters: 2000, shards: 16 };
    let st2 = engine::run_spec(&sp2, tier, seed ^ 0x5555);
    let link_evals = st2.evaluations;
    stats.merge(st2);
    engine::run_regressions::<Any>("C12", check_any, &mut stats);
    let extra = serde_json::json!({"link_cases": link_evals});
    let extra = super::fuzzrun::maybe_fuzz("C12", "gamma_quantile", tier, seed, &mut stats, extra);
    engine::finish("C12", tier, seed, RULE, stats, t0, extra, &["own series / Lentz continued fraction for P(a,x), Q(a,x), own ln Gamma (accuracy ~1e-13, far below the 2e-8 tolerance)", "the required domain is p >= P(a,1e-13)*(1+1e-9)"])
}
pub fn replay(path: &str) -> i32 {
    engine::replay_file::<Any>("C12", path, check_any)
}
