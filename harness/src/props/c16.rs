//! C16 — matrix failures are reported: singular gives ZeroDet, the stability test is sound.
use super::c15;
use super::phys::{self, EPS};
use crate::engine::{self, Ctx, Failure, Spec, Tape, Tier};
use crate::fail;
use crate::gen::{self, Phys, PhysOpts, ONE_M};
use crate::oracle::graph::Q;
use crate::oracle::lin;
use crate::scalars::exq::Xq;
use num::Zero;
use crate::sut::{self, BuildErr, Decomp, Mat, SutErr};
use crate::with_d;
use serde::{Deserialize, Serialize};
use std::time::Instant;

pub const RULE: &str = "cases (matrix) = symmetric matrices of dimension 1..8: SPD (all C15 classes), indefinite (SPD minus a multiple of the identity, or with a negated row/column), exactly singular positive semi-definite small-integer Q Q^T with a zero LAST pivot scaled by a power of two (all Cholesky arithmetic exact => ZeroDet is required), semi-definite with an interior zero pivot, the 2x2 [[1,2],[2,1]] family, ill-conditioned Hilbert-like; stability tolerance None, 10^(-12..2), or an extreme of the type (+inf, f64::MAX, 5e-324, 0, -0, negative, NaN); power-of-four diagonal matrices whose residual is exactly 0; direct sums of small exact SPD blocks each at its own power-of-two scale down to subnormal (parts of the inverse overflow); exact-ring scalar route: positive-definite dyadic matrices of dimension 1..8 decomposed with a user scalar whose + - * are exact and whose sqrt and / are rounded to 16 bits, so that the routine's own evaluation of the distance is accurate to 1.6e-5 in any summation order: the residual d of the untested result is computed exactly and the call is repeated with tolerances d*r, r in {0.5, 0.9, 0.999, 1.001, random}: every r <= 1-3e-4 must be refused. every matrix and every sample is decomposed with print_debug_info off and on. oracle: Ok => determinant != 0; required-ZeroDet class must give ZeroDet; with Some(tol): Ok => no NaN anywhere in the decomposition and the L_{2,1} distance between inverse*matrix and the identity, recomputed in exact rational arithmetic from the returned inverse, <= tol(1+1e-9) + rounding slack of the residual evaluation. cases (sample) = accepted graphs sampled with the stability test enabled at points containing 0, subnormal and 1-2^-53 coordinates: an Ok sample has a NaN-free decomposition meeting the same bound. non-trivial = the matrix is not (SPD with cond<=1e6), or the sample point has an exact-zero / extreme coordinate; distinct = distinct case encodings";

#[derive(Clone, Debug, Serialize, Deserialize)]
pub struct Case {
    pub a: Mat,
    pub tol: Option<f64>,
    /// the tolerance is +infinity (JSON cannot carry it inside `tol`)
    #[serde(default)]
    pub tol_inf: bool,
    /// the tolerance is NaN
    #[serde(default)]
    pub tol_nan: bool,
    #[serde(default)]
    pub require_zero_det: bool,
    #[serde(default)]
    pub class: String,
}

pub fn gen_case(t: &mut Tape, tier: Tier) -> Option<Case> {
    let tol = match t.weighted(&[0.25, 0.65, 0.1]) {
        0 => None,
        1 => Some(10f64.powf(t.uniform(-12.0, 2.0))),
        // every f64 is a legal tolerance: the extremes of the type
        _ => Some(*t.pick(&[f64::INFINITY, f64::MAX, 1e300, 5e-324, 1e-300, 1.0, 0.0, -0.0, -1.0, -1e-300, f64::NAN, f64::NEG_INFINITY])),
    };
    let mut require = false;
    let (a, class): (Mat, &'static str) = match t.below(10) {
        9 => {
            // direct sum of small exact SPD blocks, each at its own extreme power-of-two scale (incl. subnormal):
            // pivots finite, the pivot product need not under/overflow, but parts of the inverse may
            let n = t.range(2, 8);
            let mut a = vec![vec![0.0f64; n]; n];
            let mut start = 0;
            while start < n {
                let len = t.range(1, (n - start).min(3));
                let k = match t.weighted(&[0.4, 0.25, 0.35]) {
                    0 => -(t.range(990, 1074) as i32),
                    1 => t.range(900, 1020) as i32,
                    _ => *t.pick(&[-600i32, -300, -1, 0, 0, 1, 300, 500]),
                };
                let m: Vec<Vec<f64>> = (0..len).map(|_| (0..len).map(|_| t.range(0, 4) as f64 - 2.0).collect()).collect();
                for i in 0..len {
                    for j in 0..len {
                        let v = (0..len).map(|q_| m[i][q_] * m[j][q_]).sum::<f64>() + if i == j { 1.0 } else { 0.0 };
                        let (h1, h2) = (k / 2, k - k / 2);
                        a[start + i][start + j] = v * 2f64.powi(h1) * 2f64.powi(h2);
                    }
                }
                start += len;
            }
            for i in 0..n {
                for j in 0..i {
                    // the scaling of a symmetric block is symmetric; make sure of it even when subnormal rounding occurred
                    a[i][j] = a[j][i];
                }
            }
            (a, "block-diagonal:independent-extreme-scales")
        }
        8 => {
            // power-of-two diagonal: every operation of the routine is exact, the residual is exactly 0
            let n = t.range(1, 8);
            let mut a = vec![vec![0.0; n]; n];
            for i in 0..n {
                a[i][i] = 4f64.powi(t.range(0, 20) as i32 - 10);
            }
            (a, "diag:powers-of-four(exact)")
        }
        7 => {
            // SPD matrix at an extreme overall scale (power of two, exact): pivots and their product may under/overflow
            let (mut a, _) = c15::gen_spd(t, tier);
            let k = t.range(0, 2000) as i32 - 1000;
            let (h1, h2) = (k / 2, k - k / 2);
            let mut ok = true;
            for row in a.iter_mut() {
                for v in row.iter_mut() {
                    *v = *v * 2f64.powi(h1) * 2f64.powi(h2);
                    ok &= v.is_finite();
                }
            }
            if !ok {
                let (b, _) = c15::gen_spd(t, tier);
                a = b;
            }
            (a, "spd:extreme-scale")
        }
        0 => {
            let (a, _) = c15::gen_spd(t, tier);
            (a, "spd")
        }
        1 => {
            // indefinite: shift the spectrum
            let (mut a, _) = c15::gen_spd(t, tier);
            let n = a.len();
            let tr: f64 = (0..n).map(|i| a[i][i]).sum::<f64>() / n as f64;
            let s = tr * t.uniform(0.2, 3.0);
            for i in 0..n {
                a[i][i] -= s;
            }
            (a, "indefinite:shifted")
        }
        2 => {
            let (mut a, _) = c15::gen_spd(t, tier);
            let n = a.len();
            let k = t.below(n);
            for i in 0..n {
                if i != k {
                    a[i][k] = -a[i][k] * 3.0;
                    a[k][i] = a[i][k];
                }
            }
            (a, "indefinite:scaled-row")
        }
        3 => {
            // exactly singular PSD, zero LAST pivot, exact arithmetic
            let n = t.range(1, 8);
            let mut qm = vec![vec![0.0f64; n]; n];
            for i in 0..n {
                for j in 0..i {
                    qm[i][j] = t.range(0, 6) as f64 - 3.0;
                }
                qm[i][i] = if i + 1 == n { 0.0 } else { t.range(1, 4) as f64 };
            }
            let sc = 2f64.powi(2 * (t.range(0, 20) as i32 - 10));
            let mut a = vec![vec![0.0; n]; n];
            for i in 0..n {
                for j in 0..n {
                    a[i][j] = sc * (0..n).map(|k| qm[i][k] * qm[j][k]).sum::<f64>();
                }
            }
            require = true;
            (a, "psd:zero-last-pivot(exact)")
        }
        4 => {
            // zero pivot somewhere
            let n = t.range(2, 8);
            let z = t.below(n);
            let mut qm = vec![vec![0.0f64; n]; n];
            for i in 0..n {
                for j in 0..i {
                    qm[i][j] = t.range(0, 6) as f64 - 3.0;
                }
                qm[i][i] = if i == z { 0.0 } else { t.range(1, 4) as f64 };
            }
            let mut a = vec![vec![0.0; n]; n];
            for i in 0..n {
                for j in 0..n {
                    a[i][j] = (0..n).map(|k| qm[i][k] * qm[j][k]).sum::<f64>();
                }
            }
            (a, "psd:zero-pivot-anywhere")
        }
        5 => {
            let b = t.uniform(1.0, 4.0);
            let d = *t.pick(&[1.0, 0.5, 2.0]);
            (vec![vec![d, b], vec![b, d]], "2x2:offdiag>diag")
        }
        _ => {
            let n = t.range(3, 8);
            let c = t.uniform(0.0, 1.0);
            let a: Mat = (0..n).map(|i| (0..n).map(|j| 1.0 / ((i + j + 1) as f64 + c)).collect()).collect();
            (a, "hilbert-like(ill-conditioned)")
        }
    };
    let tol_inf = tol == Some(f64::INFINITY);
    let tol_nan = tol.map(|x| x.is_nan()).unwrap_or(false);
    let tol = match tol {
        Some(x) if x == f64::NEG_INFINITY => Some(-f64::MAX),
        other => other,
    };
    Some(Case { a, tol: if tol_inf || tol_nan { None } else { tol }, tol_inf, tol_nan, require_zero_det: require, class: class.into() })
}

fn has_nan(d: &Decomp) -> bool {
    d.det.is_nan() || d.inv.iter().chain(d.qt.iter()).chain(d.qti.iter()).flatten().any(|x| x.is_nan())
}

/// exact L_{2,1} distance of inverse*matrix from the identity and the rounding slack of evaluating it in f64
pub fn exact_residual(a: &Mat, inv: &Mat) -> Option<(f64, f64)> {
    let aq = lin::from_f64(a)?;
    let iq = lin::from_f64(inv)?;
    let n = a.len();
    let prod = lin::matmul(&iq, &aq);
    let res = lin::sub(&prod, &lin::identity(n));
    let exact = lin::l21(&res);
    // |inv| |a| in the same norm bounds the rounding error of the f64 evaluation of the residual
    let abs_prod: Vec<Vec<f64>> = (0..n).map(|i| (0..n).map(|j| (0..n).map(|k| (inv[i][k] * a[k][j]).abs()).sum::<f64>()).collect()).collect();
    let slack: f64 = 4.0 * (n as f64 + 2.0) * EPS * (0..n).map(|j| (0..n).map(|i| (abs_prod[i][j] + if i == j { 1.0 } else { 0.0 }).powi(2)).sum::<f64>().sqrt()).sum::<f64>();
    Some((exact, slack))
}

pub fn check_decomp_ok(a: &Mat, d: &Decomp, tol: Option<f64>, what: &str) -> Result<(), Failure> {
    let pre = if what == "sample" { "sample-" } else { "" };
    if d.det == 0.0 {
        fail!(format!("{pre}ok-with-zero-det"), "{what}: Ok returned with determinant {} for {a:?}", d.det);
    }
    if let Some(tol) = tol {
        if has_nan(d) {
            fail!(format!("{pre}ok-with-nan"), "{what}: stability test Some({tol:e}) but an Ok decomposition contains NaN: det={} inverse={:?} for matrix {a:?}", d.det, d.inv);
        }
        match exact_residual(a, &d.inv) {
            // an infinite tolerance admits an infinite distance: nothing to decide
            None if tol == f64::INFINITY => {}
            None => fail!(format!("{pre}ok-with-nonfinite"), "{what}: stability test Some({tol:e}) but the Ok inverse is not finite: {:?} for {a:?}", d.inv),
            Some((exact, slack)) => {
                if !(exact <= tol * (1.0 + 1e-9) + slack) {
                    fail!(format!("{pre}ok-but-unstable"), "{what}: stability test Some({tol:e}) passed but the exact L_2,1 distance of inverse*matrix from the identity is {exact:e} (slack {slack:e}); matrix {a:?} inverse {:?}", d.inv);
                }
            }
        }
    }
    Ok(())
}

pub fn check(c: &Case, ctx: &mut Ctx) -> Result<(), Failure> {
    let eff_tol = if c.tol_inf { Some(f64::INFINITY) } else if c.tol_nan { Some(f64::NAN) } else { c.tol };
    let c = &Case { tol: eff_tol, ..c.clone() };
    let a = &c.a;
    let n = a.len();
    if n == 0 || n > 8 || a.iter().any(|r| r.len() != n) || a.iter().flatten().any(|x| !x.is_finite()) {
        fail!("bad-case", "not a finite square matrix of dimension 1..8");
    }
    for i in 0..n {
        for j in 0..n {
            if a[i][j] != a[j][i] {
                fail!("bad-case", "matrix not symmetric");
            }
        }
    }
    if !c.class.is_empty() {
        ctx.label(format!("class:{}", c.class));
    }
    ctx.label(if c.tol.is_some() { "stability:Some" } else { "stability:None" });
    let r = sut::decompose(a, c.tol);
    match &r {
        Err(SutErr::Panic(m)) => fail!("decompose-panic", "decompose_for_tropical panicked: {m} on {a:?}"),
        Err(SutErr::ZeroDet) => ctx.label("result:ZeroDet"),
        Err(SutErr::Unstable) => ctx.label("result:Unstable"),
        Err(SutErr::Gamma) => unreachable!(),
        Ok(d) => {
            ctx.label(if has_nan(d) { "result:Ok(with NaN, no stability test)" } else { "result:Ok" });
            if c.require_zero_det {
                fail!("zero-pivot-not-reported", "exactly singular matrix (zero last pivot, exact arithmetic) gave Ok with determinant {} instead of ZeroDet: {a:?}", d.det);
            }
            check_decomp_ok(a, d, c.tol, "decompose_for_tropical")?;
        }
    }
    // the same contract with print_debug_info on (the property does not depend on the debug flag)
    match sut::decompose_dbg(a, c.tol, true) {
        Err(SutErr::Panic(m)) => fail!("decompose-panic", "decompose_for_tropical panicked with print_debug_info=true: {m} on {a:?}"),
        Ok(d) => {
            if c.require_zero_det {
                fail!("zero-pivot-not-reported", "print_debug_info=true: exactly singular matrix gave Ok with determinant {} instead of ZeroDet: {a:?}", d.det);
            }
            check_decomp_ok(a, &d, c.tol, "decompose_for_tropical(print_debug_info=true)")?;
            ctx.label("debug-on:Ok");
        }
        Err(_) => ctx.label("debug-on:Err"),
    }
    // adaptive: take the decomposition obtained without the test, compute its exact residual r, and ask again with
    // tolerances below r: the stability test must then refuse (decided only where r clearly exceeds the rounding slack)
    if c.tol.is_none() {
        if let Ok(d) = &r {
            if !has_nan(d) {
                if let Some((exact, slack)) = exact_residual(a, &d.inv) {
                    if exact.is_finite() && exact > 8.0 * slack && exact > 0.0 {
                        for f in [0.25, 0.6] {
                            let tol2 = exact * f;
                            if let Ok(d2) = sut::decompose(a, Some(tol2)) {
                                if let Some((e2, s2)) = exact_residual(a, &d2.inv) {
                                    if !(e2 <= tol2 * (1.0 + 1e-9) + s2) {
                                        fail!("ok-but-unstable", "decompose_for_tropical: stability test Some({tol2:e}) passed but the exact L_2,1 distance of inverse*matrix from the identity is {e2:e} (slack {s2:e}); matrix {a:?}");
                                    }
                                }
                            }
                            ctx.label("adaptive-tolerance-below-residual");
                        }
                    }
                }
            }
        }
    }
    if c.require_zero_det && !matches!(r, Err(SutErr::ZeroDet)) {
        fail!("zero-pivot-not-reported", "exactly singular matrix (zero last pivot) gave {r:?} instead of ZeroDet: {a:?}");
    }
    let benign = c15::exact_info(a).map(|(_, _, _, cond)| cond <= 1e6).unwrap_or(false);
    if !benign {
        ctx.nontrivial();
    }
    Ok(())
}

// ------------------------------------------------------------------ through a sample
#[derive(Clone, Debug, Serialize, Deserialize)]
pub struct SCase {
    pub p: Phys,
    /// finite tolerance; ignored when `tol_inf`
    pub tol: f64,
    #[serde(default)]
    pub tol_inf: bool,
}
pub fn gen_sample(t: &mut Tape, tier: Tier) -> Option<SCase> {
    let mo = if t.bool() { 1.0 / 64.0 } else { 0.15 };
    let opts = PhysOpts { max_e: tier.pick(7, 8), max_l: 8, min_omega: mo, dmax: 4, max_ops: 3, profile: gen::CORNERS };
    let mut p = if t.chance(0.1) { gen::gen_phys_union(t, &opts)? } else { gen::gen_phys(t, &opts)? };
    // sprinkle exact zeros / extremes over all coordinates
    let n = p.x.len();
    let k = t.below(4);
    for _ in 0..k {
        let i = t.below(n);
        p.x[i] = *t.pick(&[0.0, 5e-324, 2.2250738585072014e-308, ONE_M, 1e-300]);
    }
    if k > 0 {
        p.classes.push("sprinkled-extreme".into());
    }
    let tol = if t.chance(0.1) { *t.pick(&[f64::INFINITY, f64::MAX, 1e300]) } else { 10f64.powf(t.uniform(-12.0, 0.0)) };
    let tol_inf = tol == f64::INFINITY;
    Some(SCase { p, tol: if tol_inf { 1.0 } else { tol }, tol_inf })
}
fn sample_d<const D: usize>(c: &SCase, ctx: &mut Ctx) -> Result<(), Failure> {
    let p = &c.p;
    let g = &p.g;
    let s = match sut::build::<D>(g, p.kin.sig.clone()) {
        Ok(s) => s,
        Err(BuildErr::Rejected(_)) | Err(BuildErr::Panic(_)) => {
            ctx.label("skip:not-built");
            return Ok(());
        }
    };
    let ed = sut::edge_data::<D>(&g.massive, &p.kin.masses, &p.kin.shifts);
    for dbg in [false, true] {
    match sut::sample_f64(&s, &p.x, ed.clone(), Some(c.tol), dbg, true) {
        Err(SutErr::Panic(m)) => fail!("sample-panic", "sampling panicked (print_debug_info={dbg}): {m}; case {c:?}"),
        Err(e) => {
            ctx.label(format!("sample:{e:?}"));
        }
        Ok(o) => {
            ctx.label("sample:Ok");
            let Some(md) = o.meta else { fail!("no-metadata", "no metadata") };
            if md.l.iter().flatten().any(|x| !x.is_finite()) {
                fail!("sample-ok-with-nan", "sample Ok with stability test Some({:e}) but the L matrix is not finite: {:?}; case {c:?}", c.tol, md.l);
            }
            check_decomp_ok(&md.l, &md.dec, Some(c.tol), "sample")?;
            if o.u.is_nan() {
                fail!("sample-ok-with-nan", "sample Ok with stability test but u = {}", o.u);
            }
            if o.u.is_infinite() {
                // overflow of det = det_q^2 for huge parameters: outside f64's range, not a NaN decomposition
                ctx.label("sample:Ok(determinant overflowed to inf)");
            }
        }
    }
    }
    if p.classes.iter().any(|s| s == "sprinkled-extreme" || s == "u:extreme" || s == "xi:tiny") {
        ctx.nontrivial();
    }
    Ok(())
}
pub fn check_sample(c: &SCase, ctx: &mut Ctx) -> Result<(), Failure> {
    let c = &SCase { tol: if c.tol_inf { f64::INFINITY } else { c.tol }, ..c.clone() };
    // the closed lower end (exact zeros) is part of this property's domain
    let (_ne, _nl) = phys::validate_opt(&c.p, true)?;
    if !(c.tol > 0.0) {
        fail!("bad-case", "bad tolerance");
    }
    with_d!(c.p.g.d, sample_d(c, ctx))
}

// ------------------------------------------------------------------ exact-arithmetic scalar route
/// The stability test decided with the exact-rational scalar `Xq` (exact + - *, 16-bit sqrt and /): the value the routine
/// computes for the L_{2,1} distance can then differ from the exact distance only through the square roots of the
/// column norms (relative 1.6e-5), whatever the order of its sums, so tolerances just below the exact distance
/// (down to a factor 1 - 1e-3) must be refused. In f64 that window is hidden by the rounding slack.
#[derive(Clone, Debug, Serialize, Deserialize)]
pub struct XCase {
    pub a: Mat,
    pub ratios: Vec<f64>,
    #[serde(default)]
    pub class: String,
}

pub fn gen_xcase(t: &mut Tape, _tier: Tier) -> Option<XCase> {
    let n = *t.pick(&[1usize, 2, 3, 4, 5, 6, 7, 8, 7, 8, 6, 5, 7, 8]);
    let class;
    let mut a = vec![vec![0.0f64; n]; n];
    match t.below(3) {
        0 => {
            // M M^T + c I with small integers
            class = "int:MMt+cI";
            let dens = t.uniform(0.3, 1.0);
            let m: Vec<Vec<f64>> = (0..n).map(|_| (0..n).map(|_| if t.chance(dens) { t.range(0, 6) as f64 - 3.0 } else { 0.0 }).collect()).collect();
            let c = t.range(1, 3) as f64;
            for i in 0..n {
                for j in 0..n {
                    a[i][j] = (0..n).map(|k| m[i][k] * m[j][k]).sum::<f64>() + if i == j { c } else { 0.0 };
                }
            }
        }
        1 => {
            // strictly diagonally dominant with dyadic entries: columns of very different residual
            class = "dyadic:diag-dominant";
            for i in 0..n {
                for j in 0..i {
                    let v = if t.chance(0.6) { (t.range(0, 16) as f64 - 8.0) / 8.0 } else { 0.0 };
                    a[i][j] = v;
                    a[j][i] = v;
                }
            }
            for i in 0..n {
                let s: f64 = (0..n).filter(|&j| j != i).map(|j| a[i][j].abs()).sum();
                a[i][i] = s + (t.range(1, 32) as f64) / 8.0;
            }
        }
        _ => {
            // loop-momentum-like: sum_e x_e s_e s_e^T with dyadic x_e and signature entries in {-1,0,1}
            class = "dyadic:L-matrix-like";
            let ne = n + t.range(0, 6);
            for e in 0..ne {
                let x = (t.range(1, 64) as f64) / 16.0;
                let s: Vec<f64> = (0..n).map(|l| if e < n && l == e { 1.0 } else if t.chance(0.35) { *t.pick(&[1.0, -1.0]) } else { 0.0 }).collect();
                for i in 0..n {
                    for j in 0..n {
                        a[i][j] += x * s[i] * s[j];
                    }
                }
            }
        }
    }
    let k = t.range(0, 12) as i32 - 6;
    for row in a.iter_mut() {
        for v in row.iter_mut() {
            *v *= 2f64.powi(k);
        }
    }
    let mut ratios = vec![0.5, 0.9, 0.999, 1.001];
    ratios.push(if t.bool() { t.uniform(0.01, 0.999) } else { 1.0 - 10f64.powf(t.uniform(-3.0, -0.3)) });
    // reference-side rejection (counted): the route needs an exactly positive-definite matrix
    if !lin::from_f64(&a).map(|m| lin::is_spd(&m)).unwrap_or(false) {
        return None;
    }
    Some(XCase { a, ratios, class: class.into() })
}

fn xq_decompose(a: &Mat, stab: Option<f64>) -> Result<Result<(lin::QMat, Q), SutErr>, String> {
    let n = a.len();
    let mut m = momtrop::matrix::SquareMatrix::new_zeros_from_num(&Xq::f(0.0), n);
    for i in 0..n {
        for j in 0..n {
            m[(i, j)] = Xq::f(a[i][j]);
        }
    }
    let st = sut::settings(stab, false, false);
    match std::panic::catch_unwind(std::panic::AssertUnwindSafe(|| m.decompose_for_tropical(&st))) {
        Ok(Ok(d)) => Ok(Ok(((0..n).map(|i| (0..n).map(|j| d.inverse[(i, j)].0.clone()).collect()).collect(), d.determinant.0.clone()))),
        Ok(Err(momtrop::matrix::MatrixError::ZeroDet)) => Ok(Err(SutErr::ZeroDet)),
        Ok(Err(momtrop::matrix::MatrixError::Unstable)) => Ok(Err(SutErr::Unstable)),
        Err(_) => Err(engine::take_panic()),
    }
}

pub fn check_x(c: &XCase, ctx: &mut Ctx) -> Result<(), Failure> {
    let a = &c.a;
    let n = a.len();
    if n == 0 || n > 8 || a.iter().any(|r| r.len() != n) || a.iter().flatten().any(|x| !x.is_finite()) || c.ratios.iter().any(|r| !(r.is_finite() && *r > 0.0)) {
        fail!("bad-case", "not a finite square matrix of dimension 1..8 with positive ratios");
    }
    for i in 0..n {
        for j in 0..n {
            if a[i][j] != a[j][i] {
                fail!("bad-case", "matrix not symmetric");
            }
        }
    }
    let Some(aq) = lin::from_f64(a) else { fail!("bad-case", "non-finite") };
    if !lin::is_spd(&aq) {
        fail!("bad-case", "exact-scalar route needs a positive-definite matrix");
    }
    match c15::exact_info(a) {
        Some((_, _, _, cond)) if cond <= 1e4 => {}
        _ => {
            ctx.label("xq:skip-cond>1e4");
            return Ok(());
        }
    }
    ctx.label(format!("xq:class:{}", c.class));
    ctx.label(format!("xq:n={n}"));
    let (inv, det) = match xq_decompose(a, None) {
        Ok(Ok(x)) => x,
        Ok(Err(e)) => fail!("xq-rejected", "decompose_for_tropical::<exact dyadic + - *, 16-bit sqrt and /> returned {e:?} without a stability test for a positive-definite matrix of condition <= 1e4: {a:?}"),
        Err(p) if p.contains("xq-") => {
            ctx.label("xq:skip-scalar-domain");
            return Ok(());
        }
        Err(p) => fail!("xq-panic", "decompose_for_tropical::<exact rational> panicked ({p}) on {a:?}"),
    };
    if det.is_zero() {
        fail!("ok-with-zero-det", "exact-scalar route: Ok with determinant 0 for {a:?}");
    }
    let res = lin::sub(&lin::matmul(&inv, &aq), &lin::identity(n));
    let d = lin::l21(&res);
    if !(d > 0.0 && d.is_finite()) {
        ctx.label("xq:residual-exactly-zero");
        return Ok(());
    }
    ctx.max("xq_residual", d);
    let mut refused = 0;
    for &r in &c.ratios {
        let tol = d * r;
        if !(tol > 0.0 && tol.is_finite()) {
            continue;
        }
        match xq_decompose(a, Some(tol)) {
            Ok(Ok((inv2, _))) => {
                let d2 = lin::l21(&lin::sub(&lin::matmul(&inv2, &aq), &lin::identity(n)));
                if d2 * (1.0 - 3e-4) > tol {
                    fail!("ok-but-unstable", "exact-scalar route (exact + - *, 16-bit sqrt and /: the evaluation of the distance is accurate to 1.6e-5 in any summation order): stability test Some({tol:e}) passed although the exact L_2,1 distance of inverse*matrix from the identity is {d2:e} = tolerance/{:.6}; matrix {a:?}", tol / d2);
                }
                ctx.label(if r < 1.0 { "xq:ok(within-3e-4)" } else { "xq:ok(tolerance-above-distance)" });
            }
            Ok(Err(SutErr::Unstable)) => {
                refused += 1;
                ctx.label(if r < 1.0 { "xq:refused(tolerance-below-distance)" } else { "xq:refused(tolerance-above-distance)" });
            }
            Ok(Err(e)) => fail!("xq-rejected", "exact-scalar route: {e:?} with Some({tol:e}) although the same matrix decomposed without the test: {a:?}"),
            Err(p) if p.contains("xq-") => ctx.label("xq:skip-scalar-domain"),
            Err(p) => fail!("xq-panic", "decompose_for_tropical::<exact rational> panicked ({p}) on {a:?} with Some({tol:e})"),
        }
    }
    if refused > 0 && n >= 2 {
        ctx.nontrivial();
    }
    Ok(())
}

#[derive(Clone, Debug, Serialize, Deserialize)]
#[serde(untagged)]
pub enum Any {
    Sample(SCase),
    /// before `Matrix`: untagged decoding takes the first variant that fits, and `ratios` is required here
    Exact(XCase),
    Matrix(Case),
}
pub fn check_any(c: &Any, ctx: &mut Ctx) -> Result<(), Failure> {
    match c {
        Any::Matrix(m) => check(m, ctx),
        Any::Sample(s) => check_sample(s, ctx),
        Any::Exact(x) => check_x(x, ctx),
    }
}

pub fn run(tier: Tier, seed: u64) -> i32 {
    let t0 = Instant::now();
    let sp = Spec { id: "C16", rule: RULE, tape_len: 260, cases: tier.pick(30_000, 600_000), gen: gen_case, check, max_shrink_iters: 3000, shards: 16 };
    let mut stats = engine::run_spec(&sp, tier, seed);
    let sp2 = Spec { id: "C16", rule: RULE, tape_len: 300, cases: tier.pick(20_000, 300_000), gen: gen_sample, check: check_sample, max_shrink_iters: 2000, shards: 16 };
    let st2 = engine::run_spec(&sp2, tier, seed ^ 0x1616);
    let n2 = st2.evaluations;
    stats.merge(st2);
    let sp3 = Spec { id: "C16", rule: RULE, tape_len: 400, cases: tier.pick(1_600, 12_000), gen: gen_xcase, check: check_x, max_shrink_iters: 300, shards: 16 };
    let st3 = engine::run_spec(&sp3, tier, seed ^ 0x1617);
    let n3 = st3.evaluations;
    stats.merge(st3);
    engine::run_regressions::<Any>("C16", check_any, &mut stats);
    engine::finish("C16", tier, seed, RULE, stats, t0, serde_json::json!({"sample_cases": n2, "exact_scalar_cases": n3}), &["exact rational recomputation of inverse*matrix - identity", "rounding slack 4(n+2) eps ||inverse||matrix| + I|_{2,1} for the f64 evaluation inside the test"])
}
pub fn replay(path: &str) -> i32 {
    engine::replay_file::<Any>("C16", path, check_any)
}
