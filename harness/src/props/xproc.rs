//! Cross-process comparisons: the binary re-executes itself (fresh process = fresh hash seeds, fresh statics).
use crate::engine::{self, Failure, Stats, Tape, Tier};
use crate::oracle::graph::G;
use serde_json::{json, Value};
use std::io::Write;
use std::process::{Command, Stdio};

/// run `mtverif --child <mode>` with `input` on stdin, return its report line (stdout)
pub fn run_child(mode: &str, input: &str) -> Result<String, String> {
    let exe = std::env::current_exe().map_err(|e| e.to_string())?;
    let mut ch = Command::new(exe).arg("--child").arg(mode).stdin(Stdio::piped()).stdout(Stdio::piped()).stderr(Stdio::null()).spawn().map_err(|e| e.to_string())?;
    {
        let mut si = ch.stdin.take().ok_or("no stdin")?;
        si.write_all(input.as_bytes()).map_err(|e| e.to_string())?;
    }
    let out = ch.wait_with_output().map_err(|e| e.to_string())?;
    if !out.status.success() {
        return Err(format!("child exited with {:?}", out.status));
    }
    Ok(String::from_utf8_lossy(&out.stdout).to_string())
}

pub fn child_main(mode: &str) -> i32 {
    let mut input = String::new();
    use std::io::Read;
    if std::io::stdin().read_to_string(&mut input).is_err() {
        return 2;
    }
    match mode {
        "tables" => {
            let gs: Vec<G> = match serde_json::from_str(&input) {
                Ok(g) => g,
                Err(_) => return 2,
            };
            let out: Vec<String> = gs.iter().map(super::c05::table_string).collect();
            engine::say(&serde_json::to_string(&out).unwrap());
            0
        }
        "samples" => {
            let out = super::c17::child_samples(&input);
            engine::say(&out);
            0
        }
        _ => 2,
    }
}

/// C05 determinism across processes: same graphs built here and in a fresh process give identical tables
pub fn cross_process_tables(tier: Tier, seed: u64, stats: &mut Stats) -> Value {
    let n = tier.pick(300, 4000);
    let tapes = engine::sample_tapes("C05-xproc", seed, n, 180);
    let gs: Vec<G> = tapes.iter().map(|tp| crate::gen::gen_any_graph(&mut Tape::new(tp), tier)).collect();
    let mine: Vec<String> = gs.iter().map(super::c05::table_string).collect();
    let input = serde_json::to_string(&gs).unwrap();
    match run_child("tables", &input) {
        Err(e) => {
            stats.harness_panics.push(format!("cross-process child failed: {e}"));
            json!({"cross_process": "child failed"})
        }
        Ok(out) => {
            let theirs: Vec<String> = serde_json::from_str(out.trim()).unwrap_or_default();
            if theirs.len() != mine.len() {
                stats.harness_panics.push(format!("cross-process child returned {} results for {} graphs", theirs.len(), mine.len()));
                return json!({"cross_process": "child output unreadable"});
            }
            let mut accepted = 0;
            for i in 0..mine.len() {
                if mine[i] != "REJECTED" {
                    accepted += 1;
                }
                if mine[i] != theirs[i] {
                    let case = json!({"g": gs[i], "pushed": null});
                    stats.failures.push((Failure::new("nondeterministic-build-xproc", format!("table built in a fresh process differs from the one built here for {:?}", gs[i])), case));
                    break;
                }
            }
            json!({"cross_process_graphs": n, "cross_process_accepted": accepted})
        }
    }
}
