//! C14 — each hypercube coordinate is consumed exactly once, in one statistical role (dynamic dependency tracking).
use super::phys;
use crate::engine::{self, take_panic, Ctx, Failure, Spec, Tape, Tier};
use crate::fail;
use crate::gen::{self, Phys, PhysOpts};
use crate::scalars::tracked::{self, t, Tr, USER, USER_MASS, USER_SHIFT};
use crate::sut::{self, BuildErr, NoLog, SutErr};
use crate::with_d;
use momtrop::vector::Vector;
use momtrop::{SampleGenerator, TropicalSampleResult};
use serde::{Deserialize, Serialize};
use std::panic::{catch_unwind, AssertUnwindSafe};
use std::time::Instant;

pub const RULE: &str = "cases = accepted connected graphs (E<=8, L<=5, D=1..6), scrambled routing, structured point, plus 1..3 planned single-coordinate perturbations. technique: the sampler is run with a user scalar type that carries, for every value, the set of x-space coordinates (and user edge data) it was computed from; comparisons add to a control-dependence set. asserted per execution: data+control dependencies of l_matrix, u, v, jacobian lie within the first 2E-2 coordinates (+user data) and cover all of them (each xi in the data set, each edge-choice coordinate in the control set); lambda depends on exactly coordinate 2E-2; each Gaussian component on exactly its own pair; the union over all outputs is exactly {0..dim-1}; with 3 extra trailing coordinates none of them is touched and all values are bit-identical; with dim-1 coordinates the call does not return Ok; changing one xi / gamma / Box-Muller coordinate changes the numerical result (edge-choice coordinates: recorded, not asserted, because symmetric graphs may legitimately give the same numbers); value-level roles in plain f64 with print_debug_info off and on: exact-length point accepted, trailing coordinates ignored bit for bit, short point refused, a changed sector coordinate leaves lambda and all Gaussian components bit-identical, a changed gamma coordinate leaves l_matrix/u/v/jacobian and the Gaussians bit-identical and changes lambda, a changed Box-Muller coordinate changes its own pair only. non-trivial = E>=3 and (D*L odd or L>=2); distinct = distinct case encodings";

#[derive(Clone, Debug, Serialize, Deserialize)]
pub struct Case {
    pub p: Phys,
    /// (coordinate index, replacement value)
    pub perturb: Vec<(usize, f64)>,
}

pub fn gen_case(t_: &mut Tape, tier: Tier) -> Option<Case> {
    let mo = if t_.chance(0.3) { 1.0 / 64.0 } else { 0.15 };
    let opts = PhysOpts { max_e: tier.pick(8, 9), max_l: 8, min_omega: mo, dmax: 6, max_ops: 3, profile: gen::PointProfile { xi_w: [0.25, 0.1, 0.55, 0.1], ..gen::MODERATE } };
    let p = if t_.chance(0.12) { gen::gen_phys_union(t_, &opts)? } else { gen::gen_phys(t_, &opts)? };
    let dim = gen::dimension(&p.g);
    let n = t_.range(1, 3);
    let perturb = (0..n)
        .map(|_| {
            let i = t_.below(dim);
            let old = p.x[i];
            let mut nv = t_.uniform(0.05, 0.95);
            if (nv - old).abs() < 0.02 {
                nv = if old < 0.5 { old + 0.3 } else { old - 0.3 };
            }
            (i, nv)
        })
        .collect();
    Some(Case { p, perturb })
}

pub struct TRun<const D: usize> {
    pub res: Result<TropicalSampleResult<Tr, D>, SutErr>,
    pub narrow: Vec<(u128, f64)>,
    pub ctrl: u128,
    pub widen: Vec<(u128, f64)>,
}
pub fn run_tracked<const D: usize>(s: &SampleGenerator<D>, c: &Phys, npoints: usize, extra_vals: &[f64], stab: Option<f64>) -> TRun<D> {
    let g = &c.g;
    let mut xv: Vec<f64> = c.x[..npoints.min(c.x.len())].to_vec();
    xv.extend_from_slice(extra_vals);
    let x: Vec<Tr> = xv.iter().enumerate().map(|(i, &v)| t(v, 1u128 << i)).collect();
    let ed: Vec<(Option<Tr>, Vector<Tr, D>)> = (0..g.nedges()).map(|e| (if g.massive[e] { Some(t(c.kin.masses[e], USER_MASS)) } else { None }, Vector::from_array(std::array::from_fn(|i| t(c.kin.shifts[e][i], USER_SHIFT))))).collect();
    let st = sut::settings(stab, false, true);
    tracked::reset();
    let res = match catch_unwind(AssertUnwindSafe(|| s.generate_sample_from_x_space_point(&x, ed, &st, &NoLog))) {
        Ok(Ok(r)) => Ok(r),
        Ok(Err(e)) => Err(sut::classify(&format!("{e:?}"))),
        Err(_) => Err(SutErr::Panic(take_panic())),
    };
    TRun { res, narrow: tracked::narrow_log(), ctrl: tracked::ctrl(), widen: tracked::tainted_widenings() }
}

fn fmt(d: u128) -> String {
    format!("{:?}", tracked::bits_to_vec(d))
}

fn check_d<const D: usize>(c: &Case, ctx: &mut Ctx) -> Result<(), Failure> {
    let p = &c.p;
    phys::classes_label(p, ctx);
    let (ne, nl) = phys::validate_opt(p, true)?;
    let g = &p.g;
    let s = match sut::build::<D>(g, p.kin.sig.clone()) {
        Ok(s) => s,
        Err(BuildErr::Rejected(_)) | Err(BuildErr::Panic(_)) => {
            ctx.label("skip:not-built");
            return Ok(());
        }
    };
    let dim = s.get_dimension();
    if dim != gen::dimension(g) {
        fail!("dimension", "get_dimension() = {dim} but 2E-1+DL+(DL mod 2) = {}", gen::dimension(g));
    }
    let run = run_tracked::<D>(&s, p, dim, &[], None);
    let r = match &run.res {
        Ok(r) => r,
        Err(SutErr::Panic(m)) => fail!("sample-panic", "sampling panicked: {m}; case {c:?}"),
        Err(_) => {
            ctx.label("skip:sample-error");
            return Ok(());
        }
    };
    let Some(md) = r.metadata.as_ref() else { fail!("no-metadata", "no metadata") };
    let sector: u128 = (1u128 << (2 * ne - 2)) - 1;
    let lam_bit: u128 = 1u128 << (2 * ne - 2);
    let all: u128 = (1u128 << dim) - 1;
    // (1) Feynman-parameter outputs
    let mut fp = r.u.d | r.v.d | r.jacobian.d;
    for i in 0..nl {
        for j in 0..nl {
            fp |= md.l_matrix[(i, j)].d;
        }
    }
    if fp & !(sector | USER) != 0 {
        fail!("feynman-outputs-depend-on-other-coordinates", "l_matrix/u/v/jacobian depend on coordinates {} outside the first 2E-2 = {}; case {c:?}", fmt(fp & !(sector | USER)), 2 * ne - 2);
    }
    let mut l_only = 0u128;
    for i in 0..nl {
        for j in 0..nl {
            l_only |= md.l_matrix[(i, j)].d;
        }
    }
    if (l_only | r.u.d) & USER != 0 {
        fail!("u-depends-on-user-data", "l_matrix / u depend on user edge data");
    }
    let xi_bits: u128 = (0..ne.saturating_sub(1)).fold(0, |a, j| a | 1u128 << (2 * j + 1));
    let u_bits: u128 = (0..ne.saturating_sub(1)).fold(0, |a, j| a | 1u128 << (2 * j));
    if fp & xi_bits != xi_bits {
        fail!("xi-not-consumed", "xi coordinates {} do not reach l_matrix/u/v/jacobian; case {c:?}", fmt(xi_bits & !fp));
    }
    if run.ctrl & u_bits != u_bits {
        fail!("edge-choice-coordinate-not-consumed", "edge-choice coordinates {} never took part in a comparison; case {c:?}", fmt(u_bits & !run.ctrl));
    }
    if run.ctrl & !(sector | USER) != 0 {
        fail!("control-depends-on-other-coordinates", "control flow depends on coordinates {} beyond the first 2E-2", fmt(run.ctrl & !(sector | USER)));
    }
    if fp & u_bits != 0 {
        // an edge-choice coordinate must act only through the choice, never as a number
        fail!("edge-choice-coordinate-used-as-data", "edge-choice coordinates {} flow into l_matrix/u/v/jacobian as data", fmt(fp & u_bits));
    }
    // (2) lambda
    if md.lambda.d != lam_bit {
        fail!("lambda-deps", "lambda depends on {} instead of exactly coordinate {}; case {c:?}", fmt(md.lambda.d), 2 * ne - 2);
    }
    // (3) Gaussian components
    let base = 2 * ne - 1;
    let mut gauss_union = 0u128;
    for l in 0..nl {
        for i in 0..D {
            let n = l * D + i;
            let want = (1u128 << (base + 2 * (n / 2))) | (1u128 << (base + 2 * (n / 2) + 1));
            let got = md.q_vectors[l][i].d;
            gauss_union |= got;
            if got != want {
                fail!("gaussian-deps", "q[{l}][{i}] depends on {} instead of exactly its pair {}; case {c:?}", fmt(got), fmt(want));
            }
        }
    }
    // (4) union of everything
    let mut uni = fp | md.lambda.d | gauss_union | run.ctrl;
    for k in &r.loop_momenta {
        for i in 0..D {
            uni |= k[i].d;
        }
    }
    for v in md.u_vectors.iter().chain(md.shift.iter()) {
        for i in 0..D {
            uni |= v[i].d;
        }
    }
    if uni & !USER != all {
        fail!("coordinate-coverage", "the outputs depend on coordinates {} but the point has exactly {dim}: missing {}, extra {}; case {c:?}", fmt(uni & !USER), fmt(all & !uni), fmt(uni & !USER & !all));
    }
    let kdeps = r.loop_momenta.iter().fold(0u128, |a, k| (0..D).fold(a, |a, i| a | k[i].d));
    if kdeps & all != all & !u_bits {
        fail!("momenta-deps", "loop momenta depend on {} — expected every xi, the gamma coordinate and every Box-Muller coordinate; case {c:?}", fmt(kdeps));
    }
    // (5) extra trailing coordinates are ignored
    let extra = [0.123, 0.987, 0.5];
    let run2 = run_tracked::<D>(&s, p, dim, &extra, None);
    match &run2.res {
        Ok(r2) => {
            let extra_bits: u128 = ((1u128 << (dim + 3)) - 1) & !all;
            let mut uni2 = r2.u.d | r2.v.d | r2.jacobian.d | run2.ctrl;
            for k in &r2.loop_momenta {
                for i in 0..D {
                    uni2 |= k[i].d;
                }
            }
            uni2 |= run2.narrow.iter().fold(0, |a, (d, _)| a | d);
            if uni2 & extra_bits != 0 {
                fail!("extra-coordinates-read", "coordinates beyond get_dimension() were used: {}", fmt(uni2 & extra_bits));
            }
            let same = r2.u.v.to_bits() == r.u.v.to_bits() && r2.v.v.to_bits() == r.v.v.to_bits() && r2.jacobian.v.to_bits() == r.jacobian.v.to_bits() && r2.loop_momenta.iter().zip(&r.loop_momenta).all(|(a, b)| (0..D).all(|i| a[i].v.to_bits() == b[i].v.to_bits()));
            if !same {
                fail!("extra-coordinates-change-result", "appending coordinates beyond get_dimension() changed the result");
            }
        }
        Err(e) => fail!("extra-coordinates-error", "with 3 extra trailing coordinates the call failed: {e:?}"),
    }
    // (6) one coordinate short
    let run3 = run_tracked::<D>(&s, p, dim - 1, &[], None);
    if run3.res.is_ok() {
        fail!("short-point-accepted", "a point with get_dimension()-1 = {} coordinates was accepted", dim - 1);
    }
    // (7) value-level confirmation
    let ed = || sut::edge_data::<D>(&g.massive, &p.kin.masses, &p.kin.shifts);
    // only where f64 can show the influence: parameters not so spread that a change is absorbed by rounding
    let well_conditioned = {
        let reft = g.table_f64();
        let omega: Vec<f64> = reft.iter().map(|e| e.2).collect();
        let jr = g.j_f64(&omega);
        let check_path = |x: &[f64]| crate::oracle::path::simulate(ne, &omega, &jr, x, 1e-12).lnx0.iter().all(|l| l.abs() < 9.0);
        check_path(&p.x) && c.perturb.iter().all(|&(i, nv)| { let mut x2 = p.x.clone(); if i < x2.len() { x2[i] = nv; } check_path(&x2) })
    };
    if !well_conditioned {
        ctx.label("perturb:skipped(parameters spread over more than e^9)");
    }
    if let (true, Ok(base_out)) = (well_conditioned, sut::sample_f64(&s, &p.x[..dim], ed(), None, false, true)) {
        if !base_out.all_finite() {
            ctx.label("perturb:skipped(non-finite base result)");
            return finish(ctx, ne, nl, D);
        }
        let key = |o: &sut::Out| {
            let mut b = o.bits();
            if let Some(m) = &o.meta {
                b.extend(m.l.iter().flatten().map(|x| x.to_bits()));
                b.extend(m.q.iter().flatten().map(|x| x.to_bits()));
                b.push(m.lambda.to_bits());
            }
            b
        };
        let kb = key(&base_out);
        for &(i, nv) in &c.perturb {
            if i >= dim || !(nv >= 0.0 && nv < 1.0) {
                fail!("bad-case", "perturbation outside the point");
            }
            let mut x2 = p.x[..dim].to_vec();
            x2[i] = nv;
            match sut::sample_f64(&s, &x2, ed(), None, false, true) {
                Ok(o2) => {
                    let changed = key(&o2) != kb;
                    let is_u = i < 2 * ne - 2 && i % 2 == 0;
                    if is_u {
                        ctx.label(if changed { "perturb:u-changed-result" } else { "perturb:u-same-result(same edge or symmetric)" });
                    } else if !changed && o2.all_finite() {
                        fail!("coordinate-without-influence", "changing coordinate {i} from {} to {nv} left every output bit-identical; case {c:?}", p.x[i]);
                    } else {
                        ctx.label("perturb:value-changed-result");
                    }
                }
                Err(SutErr::Panic(m)) => fail!("sample-panic", "sampling panicked: {m}"),
                Err(_) => ctx.label("perturb:sample-error"),
            }
        }
    }
    // (8) value-level roles, with print_debug_info off and on (the dependency-tracking scalar cannot be used with the
    // debug channel, which narrows by design): an exact-length point is accepted, trailing coordinates are ignored,
    // and a changed coordinate leaves the groups it does not belong to bit-identical
    for dbg in [false, true] {
        let tag = if dbg { "debug-on" } else { "debug-off" };
        let base = match sut::sample_f64(&s, &p.x[..dim], ed(), None, dbg, true) {
            Ok(o) => o,
            Err(SutErr::Panic(m)) => fail!("sample-panic", "a point with exactly get_dimension() = {dim} coordinates panicked with print_debug_info={dbg}: {m}; case {c:?}"),
            Err(_) => {
                ctx.label("roles:sample-error");
                continue;
            }
        };
        let Some(bm) = base.meta.as_ref() else { fail!("no-metadata", "no metadata") };
        let mut xe = p.x[..dim].to_vec();
        xe.extend_from_slice(&[0.321, 0.5, 0.875]);
        match sut::sample_f64(&s, &xe, ed(), None, dbg, true) {
            Ok(o) => {
                if o.bits() != base.bits() {
                    fail!("extra-coordinates-change-result", "appending coordinates beyond get_dimension() changed the result (print_debug_info={dbg}); case {c:?}");
                }
            }
            Err(e) => fail!("extra-coordinates-error", "with 3 extra trailing coordinates the call failed (print_debug_info={dbg}): {e:?}"),
        }
        if sut::sample_f64(&s, &p.x[..dim - 1], ed(), None, dbg, true).is_ok() {
            fail!("short-point-accepted", "a point with get_dimension()-1 = {} coordinates was accepted (print_debug_info={dbg})", dim - 1);
        }
        let bitsv = |v: &Vec<Vec<f64>>| v.iter().flatten().map(|x| x.to_bits()).collect::<Vec<_>>();
        for &(i, nv) in &c.perturb {
            if i >= dim || !(nv >= 0.0 && nv < 1.0) {
                fail!("bad-case", "perturbation outside the point");
            }
            let mut x2 = p.x[..dim].to_vec();
            x2[i] = nv;
            let o2 = match sut::sample_f64(&s, &x2, ed(), None, dbg, true) {
                Ok(o) => o,
                Err(SutErr::Panic(m)) => fail!("sample-panic", "sampling panicked: {m}"),
                Err(_) => {
                    ctx.label("roles:sample-error");
                    continue;
                }
            };
            let Some(m2) = o2.meta.as_ref() else { fail!("no-metadata", "no metadata") };
            let same_l = bitsv(&m2.l) == bitsv(&bm.l) && o2.u.to_bits() == base.u.to_bits() && o2.v.to_bits() == base.v.to_bits() && o2.jac.to_bits() == base.jac.to_bits();
            let same_lambda = m2.lambda.to_bits() == bm.lambda.to_bits();
            let (q1, q2) = (bitsv(&bm.q), bitsv(&m2.q));
            if q1.len() != q2.len() || q1.len() != nl * D {
                fail!("gaussian-count", "{} Gaussian components instead of D*L = {}; case {c:?}", q2.len(), nl * D);
            }
            if i < 2 * ne - 2 {
                if !same_lambda || q1 != q2 {
                    fail!("role-leak", "{tag}: changing sector coordinate {i} changed lambda or the Gaussian vectors; case {c:?}");
                }
            } else if i == 2 * ne - 2 {
                if !same_l || q1 != q2 {
                    fail!("role-leak", "{tag}: changing the gamma coordinate {i} changed l_matrix/u/v/jacobian or the Gaussian vectors; case {c:?}");
                }
                if same_lambda && bm.lambda.is_finite() {
                    fail!("coordinate-without-influence", "{tag}: changing the gamma coordinate {i} from {} to {nv} left lambda = {} unchanged; case {c:?}", p.x[i], bm.lambda);
                }
            } else {
                let pair = (i - (2 * ne - 1)) / 2;
                if !same_l || !same_lambda {
                    fail!("role-leak", "{tag}: changing Box-Muller coordinate {i} changed l_matrix/u/v/jacobian or lambda; case {c:?}");
                }
                let mut own_changed = false;
                for n in 0..q1.len() {
                    if n / 2 == pair {
                        own_changed |= q1[n] != q2[n];
                    } else if q1[n] != q2[n] {
                        fail!("role-leak", "{tag}: changing Box-Muller coordinate {i} (pair {pair}) changed Gaussian component {n}; case {c:?}");
                    }
                }
                let finite_pair = (0..q1.len()).filter(|n| n / 2 == pair).all(|n| f64::from_bits(q1[n]).is_finite() && f64::from_bits(q2[n]).is_finite());
                // (b and 1-b share their cosine: the single component of an odd last pair may then legitimately stay)
                let mirror = (i - (2 * ne - 1)) % 2 == 1 && (nv + p.x[i] - 1.0).abs() < 1e-6;
                if !own_changed && finite_pair && 2 * pair < q1.len() && !mirror {
                    fail!("coordinate-without-influence", "{tag}: changing Box-Muller coordinate {i} left its own Gaussian pair {pair} bit-identical; case {c:?}");
                }
            }
            ctx.label(format!("roles:{tag}:checked"));
        }
    }
    finish(ctx, ne, nl, D)
}
fn finish(ctx: &mut Ctx, ne: usize, nl: usize, d: usize) -> Result<(), Failure> {
    if ne >= 3 && ((nl * d) % 2 == 1 || nl >= 2) {
        ctx.nontrivial();
    }
    ctx.count("executions_tracked", 3);
    Ok(())
}
pub fn check(c: &Case, ctx: &mut Ctx) -> Result<(), Failure> {
    phys::validate_opt(&c.p, true)?;
    with_d!(c.p.g.d, check_d(c, ctx))
}
pub fn run(tier: Tier, seed: u64) -> i32 {
    let t0 = Instant::now();
    let sp = Spec { id: "C14", rule: RULE, tape_len: 300, cases: tier.pick(100_000, 1_000_000), gen: gen_case, check, max_shrink_iters: 3000, shards: 16 };
    let mut stats = engine::run_spec(&sp, tier, seed);
    engine::run_regressions::<Case>("C14", check, &mut stats);
    engine::finish("C14", tier, seed, RULE, stats, t0, serde_json::json!({}), &["dependency sets are syntactic (a value multiplied by zero still carries its dependencies): coverage claims are upper bounds, complemented by the value-level perturbation", "the tracked scalar performs the same f64 arithmetic as plain f64"])
}
pub fn replay(path: &str) -> i32 {
    engine::replay_file::<Case>("C14", path, check)
}
