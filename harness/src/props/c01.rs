//! C01 — the Monte Carlo estimator is unbiased (statistical decider with a two-stage z-test).
use super::phys;
use crate::engine::{self, Ctx, Failure, Spec, Tape, Tier};
use crate::fail;
use crate::gen::{self, Kin};
use crate::oracle::gamma::ln_gamma;
use crate::oracle::graph::G;
use crate::sut::{self, BuildErr, NoLog};
use crate::with_d;
use momtrop::SampleGenerator;
use rand::{Rng, SeedableRng};
use serde::{Deserialize, Serialize};
use std::f64::consts::PI;
use std::time::Instant;

pub const RULE: &str = "cases = (a) closed forms for the mean of jacobian alone: massive one-vertex flowers (product of tadpoles, D*L<=18), massless L-loop bananas (L=1..3, D*L<=18), massive bananas in D=1 with unit weights (L=1..6), massive bubble in D=3; (b) the universal identity E[jacobian * h(k) * prod_e (q_e^2+m_e^2)^nu_e] = 1 for a normalised test function h (Gaussian, or Student-type (s^2+|k-c|^2)^(-sum nu) whose product with the propagators tends to a constant at large k) with generated centre/width on arbitrary accepted graphs with D*L<=8 and all omega>=0.3, width chosen by an independent pilot run; every case under a generated routing (random spanning tree, unimodular column operations, orientation flips, offsets); (c) deterministic scaling relation jacobian(2*kinematics) = 2^(-2 dod) jacobian(kinematics) pointwise. decision: N iid uniform points from a rand::StdRng seeded by the case; z=(mean-target)/se; |z|>4.5 triggers a second stage with 8N fresh points; violation only if |z2|>5 with the same sign and comparable spread, otherwise inconclusive (never a violation); draws on which the sampler returns an error (Gamma coordinate below the 1e-13 quantile, allowed by C12) are excluded from the mean for g = 1, whose weight does not depend on that coordinate, and count as zero for the universal identity. non-trivial = L>=2, or a massive edge, or unequal weights, or D!=3; distinct = distinct case encodings";

#[derive(Clone, Debug, Serialize, Deserialize, PartialEq)]
pub enum Kind {
    Flower,
    MasslessBanana,
    MassiveBananaD1,
    BubbleD3,
    Universal,
}
#[derive(Clone, Debug, Serialize, Deserialize)]
pub struct Case {
    pub kind: Kind,
    pub g: G,
    pub kin: Kin,
    /// Gaussian test function for Kind::Universal: centre per loop and base width
    pub centre: Vec<Vec<f64>>,
    pub width: f64,
    /// 0 = Gaussian, 1 = Student-type (s^2+|k-c|^2)^(-sum nu): g(k) tends to a constant at large k like g = 1 does
    #[serde(default)]
    pub family: u8,
    pub seed: u64,
    pub n: usize,
}

fn banana_graph(l: usize, d: usize, massive: bool, weights: Vec<f64>) -> G {
    G { edges: (0..=l).map(|i| if i % 2 == 0 { (0, 1) } else { (1, 0) }).collect(), massive: vec![massive; l + 1], weights, externals: vec![0, 1], d }
}

pub fn gen_case(t: &mut Tape, tier: Tier) -> Option<Case> {
    let n = tier.pick(400_000, 4_000_000);
    let seed = t.next();
    let kind = match t.weighted(&[0.2, 0.2, 0.15, 0.1, 0.35]) {
        0 => Kind::Flower,
        1 => Kind::MasslessBanana,
        2 => Kind::MassiveBananaD1,
        3 => Kind::BubbleD3,
        _ => Kind::Universal,
    };
    let mut kin_given: Option<Kin> = None;
    let g = match kind {
        Kind::Flower => {
            let d = t.range(1, 6);
            let l = t.range(1, (18 / d).max(1).min(6));
            let weights = (0..l).map(|_| d as f64 / 2.0 + t.uniform(0.35, 1.5)).collect();
            G { edges: vec![(0, 0); l], massive: vec![true; l], weights, externals: vec![], d }
        }
        Kind::MasslessBanana => {
            let d = t.range(2, 6);
            let l = t.range(1, (18 / d).max(1).min(3));
            // nu_i < D/2, sum nu > L D/2, omega >= 0.3 for all subsets: draw around (L D/2 + w)/(L+1)
            let mut g = banana_graph(l, d, false, vec![1.0; l + 1]);
            let mut ok = false;
            for _ in 0..8 {
                let target = t.uniform(0.35, (d as f64 / 2.0 - 0.35).max(0.36));
                let base = (l as f64 * d as f64 / 2.0 + target) / (l as f64 + 1.0);
                g.weights = (0..=l).map(|_| (base * (1.0 + t.uniform(-0.15, 0.15))).min(d as f64 / 2.0 - 0.31)).collect();
                if g.min_proper_omega() >= 0.3 && g.dod() >= 0.3 {
                    ok = true;
                    break;
                }
            }
            if !ok {
                return None;
            }
            g
        }
        Kind::MassiveBananaD1 => {
            let l = t.range(1, 6);
            banana_graph(l, 1, true, vec![1.0; l + 1])
        }
        Kind::BubbleD3 => banana_graph(1, 3, true, vec![1.0, 1.0]),
        Kind::Universal => {
            let g = if t.chance(0.2) {
                // every accepted graph, also a disconnected one (physical component + massive vacuum component)
                let p = gen::gen_phys_union(t, &gen::PhysOpts { max_e: 7, max_l: 4, min_omega: 0.3, dmax: 4, max_ops: 3, profile: gen::MODERATE })?;
                kin_given = Some(p.kin);
                p.g
            } else {
                gen::gen_phys_graph(t, 7, 4, 0.3, 4)?
            };
            if g.d * g.num_loops() > 8 {
                return None;
            }
            g
        }
    };
    if !(g.min_proper_omega() >= 0.3 || g.nedges() == 1) || !(g.dod() >= 0.35) {
        return None;
    }
    let unions = kin_given.is_some();
    let mut kin = match kin_given {
        Some(k) => k,
        None => gen::gen_kin_unit(t, &g, 4),
    };
    let nl = g.num_loops();
    if nl >= 2 && !unions && t.chance(0.6) {
        // make sure relative signs between loop momenta occur: k_0 -> k_0 - k_1 style change of basis
        let (i, j) = (t.below(nl), t.below(nl - 1));
        let j = if j >= i { j + 1 } else { j };
        if kin.sig.iter().all(|r| (r[i] - r[j]).abs() <= 3) {
            for r in kin.sig.iter_mut() {
                r[i] -= r[j];
            }
        }
    }
    let centre = (0..nl).map(|_| (0..g.d).map(|_| t.uniform(-1.0, 1.0)).collect()).collect();
    let width = t.uniform(0.7, 1.6);
    let family = if t.chance(0.35) { 1 } else { 0 };
    Some(Case { kind, g, kin, centre, width, family, seed, n })
}

/// ln of the closed-form value of the Feynman integral (mean of jacobian)
fn ln_closed_form(c: &Case) -> Option<f64> {
    let g = &c.g;
    let d = g.d as f64;
    let l = g.num_loops() as f64;
    match c.kind {
        Kind::Flower => {
            // product over petals of pi^(D/2) Gamma(nu-D/2)/Gamma(nu) m^(D-2nu)
            let mut s = 0.0;
            for e in 0..g.nedges() {
                let nu = g.weights[e];
                s += d / 2.0 * PI.ln() + ln_gamma(nu - d / 2.0) - ln_gamma(nu) + (d - 2.0 * nu) * c.kin.masses[e].ln();
            }
            Some(s)
        }
        Kind::MasslessBanana => {
            let p2: f64 = c.kin.inflow[0].1.iter().map(|x| x * x).sum();
            let sum_nu: f64 = g.weights.iter().sum();
            let om = sum_nu - l * d / 2.0;
            let mut s = d * l / 2.0 * PI.ln() + ln_gamma(om) - ln_gamma((l + 1.0) * d / 2.0 - sum_nu) - om * p2.ln();
            for &nu in &g.weights {
                s += ln_gamma(d / 2.0 - nu) - ln_gamma(nu);
            }
            Some(s)
        }
        Kind::MassiveBananaD1 => {
            let p2: f64 = c.kin.inflow[0].1.iter().map(|x| x * x).sum();
            let m: f64 = c.kin.masses.iter().sum();
            let mut s = l * (2.0 * PI).ln() + (2.0 * m / (m * m + p2)).ln();
            for &mi in &c.kin.masses {
                s -= (2.0 * mi).ln();
            }
            Some(s)
        }
        Kind::BubbleD3 => {
            let p = c.kin.inflow[0].1.iter().map(|x| x * x).sum::<f64>().sqrt();
            let m = c.kin.masses[0] + c.kin.masses[1];
            Some((2.0 * PI * PI * (p / m).atan() / p).ln())
        }
        Kind::Universal => None,
    }
}

struct Moments {
    n: usize,
    mean: f64,
    sd: f64,
    bad: usize,
    maxw: f64,
}
impl Moments {
    /// standard error with a floor: a constant weight (single tadpole) has sd = 0 and is then compared at 1e-10
    fn se(&self) -> f64 {
        (self.sd / (self.n as f64).sqrt()).max(2e-11)
    }
}

/// one Monte Carlo stage: mean of W = jacobian * g(k) / target
fn stage<const D: usize>(s: &SampleGenerator<D>, c: &Case, ln_target: f64, width: f64, n: usize, stream: u64) -> Result<Moments, Failure> {
    let g = &c.g;
    let ne = g.nedges();
    let nl = g.num_loops();
    let dim = s.get_dimension();
    let mut rng = rand::rngs::StdRng::seed_from_u64(c.seed ^ stream.wrapping_mul(0x9E3779B97F4A7C15));
    let ed = sut::edge_data::<D>(&g.massive, &c.kin.masses, &c.kin.shifts);
    let st = sut::settings(None, false, false);
    let universal = c.kind == Kind::Universal;
    let ndim = (nl * D) as f64;
    let a_st: f64 = g.weights.iter().sum();
    let ln_hnorm = if c.family == 1 {
        ln_gamma(a_st) - ndim / 2.0 * PI.ln() - ln_gamma(a_st - ndim / 2.0) + (2.0 * a_st - ndim) * width.ln()
    } else {
        -(nl as f64) * (D as f64 / 2.0) * (PI * width * width).ln()
    };
    let (mut s1, mut s2, mut bad, mut maxw) = (0.0f64, 0.0f64, 0usize, 0.0f64);
    let mut x = vec![0.0f64; dim];
    for _ in 0..n {
        for xi in x.iter_mut() {
            *xi = rng.gen::<f64>();
        }
        let r = match sut::sample_t(s, &x, ed.clone(), &st, &NoLog) {
            Ok(r) => r,
            Err(sut::SutErr::Panic(m)) => fail!("sample-panic", "sampling panicked at a uniform random point: {m}; x={x:?}; case {c:?}"),
            Err(_) => {
                bad += 1;
                continue;
            }
        };
        let mut lnw = r.jacobian.ln() - ln_target;
        if universal {
            let mut e2 = 0.0;
            for l in 0..nl {
                for i in 0..D {
                    let dlt = r.loop_momenta[l][i] - c.centre[l][i];
                    e2 += dlt * dlt;
                }
            }
            lnw += if c.family == 1 { ln_hnorm - a_st * (width * width + e2).ln() } else { ln_hnorm - e2 / (width * width) };
            for e in 0..ne {
                let mut q2 = c.kin.masses[e] * c.kin.masses[e];
                for i in 0..D {
                    let mut qe = c.kin.shifts[e][i];
                    for l in 0..nl {
                        qe += c.kin.sig[e][l] as f64 * r.loop_momenta[l][i];
                    }
                    q2 += qe * qe;
                }
                lnw += g.weights[e] * q2.ln();
            }
        }
        let w = lnw.exp();
        if !w.is_finite() {
            bad += 1;
            continue;
        }
        s1 += w;
        s2 += w * w;
        maxw = maxw.max(w);
    }
    // Failed draws (GammaError below the 1e-13 quantile, allowed by C12) remove a slice of the gamma coordinate.
    // For g = 1 the weight does not depend on that coordinate, so the mean over the successful draws is the
    // unbiased estimate; for the universal identity the lost slice has lambda -> 0, k -> infinity, h(k) -> 0 and
    // contributes nothing, so those draws count as zero.
    let denom = if universal { n } else { n - bad };
    let denom = denom.max(1) as f64;
    let mean = s1 / denom;
    let var = (s2 / denom - mean * mean).max(0.0);
    Ok(Moments { n: denom as usize, mean, sd: var.sqrt(), bad, maxw })
}

fn check_d<const D: usize>(c: &Case, ctx: &mut Ctx) -> Result<(), Failure> {
    let g = &c.g;
    let s = match sut::build::<D>(g, c.kin.sig.clone()) {
        Ok(s) => s,
        Err(BuildErr::Rejected(m)) => fail!("convergent-graph-rejected", "build_sampler rejected a graph whose omegas are all >= 0.3: {m}; {g:?}"),
        Err(BuildErr::Panic(m)) => fail!("build-panic", "build_sampler panicked: {m}"),
    };
    ctx.label(format!("kind:{:?}", c.kind));
    ctx.label(format!("D*L={}", D * g.num_loops()));
    // (c) deterministic scaling relation on a handful of points
    {
        let mut rng = rand::rngs::StdRng::seed_from_u64(c.seed ^ 0xABCDEF);
        let dim = s.get_dimension();
        let scale = 2.0f64;
        let masses2: Vec<f64> = c.kin.masses.iter().map(|m| m * scale).collect();
        let shifts2: Vec<Vec<f64>> = c.kin.shifts.iter().map(|p| p.iter().map(|x| x * scale).collect()).collect();
        let dod = s.get_dod();
        for _ in 0..64 {
            let x: Vec<f64> = (0..dim).map(|_| rng.gen::<f64>()).collect();
            let a = sut::sample_f64(&s, &x, sut::edge_data::<D>(&g.massive, &c.kin.masses, &c.kin.shifts), None, false, false);
            let b = sut::sample_f64(&s, &x, sut::edge_data::<D>(&g.massive, &masses2, &shifts2), None, false, false);
            if let (Ok(a), Ok(b)) = (a, b) {
                if a.all_finite() && b.all_finite() && a.jac > 0.0 {
                    let want = a.jac * scale.powf(-2.0 * dod);
                    let r = ((b.jac - want) / want).abs();
                    if !(r <= 1e-11 * (1.0 + dod.abs() * a.v.ln().abs())) {
                        fail!("scaling-relation", "doubling all masses and momenta must multiply jacobian by 2^(-2 dod): got {:e}, expected {want:e} (rel {r:e}) at x={x:?}; case {c:?}", b.jac);
                    }
                    for l in 0..a.k.len() {
                        for i in 0..D {
                            if b.k[l][i] != scale * a.k[l][i] {
                                fail!("scaling-relation-momenta", "doubling all masses and momenta must double the loop momenta exactly: {} vs 2*{}", b.k[l][i], a.k[l][i]);
                            }
                        }
                    }
                }
            }
        }
    }
    // target and test function
    let (ln_target, width) = match ln_closed_form(c) {
        Some(t) => (t, 1.0),
        None => {
            // pilot: choose the width with the smallest relative spread (independent stream)
            let scale = {
                let m: f64 = c.kin.masses.iter().cloned().fold(0.0, f64::max);
                let p: f64 = c.kin.shifts.iter().map(|s| s.iter().map(|x| x * x).sum::<f64>().sqrt()).fold(0.0, f64::max);
                (m + p).max(0.5)
            };
            let mut best: Option<(f64, f64)> = None;
            for f in [0.35, 0.7, 1.4, 2.8] {
                let w = c.width * scale * f;
                let m = stage::<D>(&s, c, 0.0, w, 20_000, 7777 + (f * 10.0) as u64)?;
                let rsd = m.sd / m.mean.abs().max(1e-300);
                if m.mean > 0.0 && best.map(|b| rsd < b.1).unwrap_or(true) {
                    best = Some((w, rsd));
                }
            }
            match best {
                Some((w, rsd)) if rsd <= 20.0 => {
                    ctx.label(format!("universal:family={}", c.family));
                    (0.0, w)
                }
                _ => {
                    ctx.label(format!("inconclusive:heavy-tailed-test-function(pilot,family={})", c.family));
                    return Ok(());
                }
            }
        }
    };
    let m1 = stage::<D>(&s, c, ln_target, width, c.n, 1)?;
    if m1.bad as f64 > 3e-4 * c.n as f64 {
        ctx.label("inconclusive:too-many-failed-samples");
        return Ok(());
    }
    let z1 = (m1.mean - 1.0) / m1.se();
    ctx.max("abs_z_stage1", z1.abs());
    ctx.count("mc_samples", m1.n as u64);
    if z1.abs() > 4.5 {
        ctx.label("stage2-triggered");
        let m2 = stage::<D>(&s, c, ln_target, width, 8 * c.n, 2)?;
        let z2 = (m2.mean - 1.0) / m2.se();
        ctx.count("mc_samples", m2.n as u64);
        // heavy-tail guards: comparable spread in both stages, and no single sample carrying more than 1 % of the sum
        let dominated = m2.maxw > 0.01 * m2.mean * m2.n as f64 || m1.maxw > 0.05 * m1.mean * m1.n as f64;
        let spread_ok = m2.sd <= 2.0 * m1.sd && m1.sd <= 2.0 * m2.sd && !dominated;
        if z2.abs() > 5.0 && z1.signum() == z2.signum() && spread_ok {
            fail!("biased-estimator", "mean of jacobian*g / exact = {:.6} +- {:.6} (z={z2:.1}, N={}; first stage {:.6} +- {:.6}, z={z1:.1}); the estimator is biased for {c:?}", m2.mean, m2.se(), m2.n, m1.mean, m1.se());
        }
        ctx.label(if z2.abs() > 5.0 { "inconclusive:heavy-tail(stage2 spread mismatch)" } else { "stage2-cleared" });
    }
    let _ = m1.maxw;
    let unequal = g.weights.iter().any(|w| *w != g.weights[0]);
    if g.num_loops() >= 2 || g.massive.iter().any(|&m| m) || unequal || D != 3 {
        ctx.nontrivial();
    }
    Ok(())
}
pub fn check(c: &Case, ctx: &mut Ctx) -> Result<(), Failure> {
    let g = &c.g;
    let ne = g.nedges();
    if ne == 0 || ne > 10 || !(1..=6).contains(&g.d) {
        fail!("bad-case", "graph outside the domain");
    }
    let nl = g.num_loops();
    if nl == 0 || g.d * nl > if c.kind == Kind::Universal { 8 } else { 18 } || c.kin.sig.len() != ne || c.kin.sig.iter().any(|r| r.len() != nl) || c.kin.shifts.len() != ne || c.kin.masses.len() != ne || c.centre.len() != nl || c.n == 0 || c.n > 50_000_000 {
        fail!("bad-case", "kinematics do not fit / D*L > 8");
    }
    let _ = phys::K;
    with_d!(g.d, check_d(c, ctx))
}
pub fn run(tier: Tier, seed: u64) -> i32 {
    let t0 = Instant::now();
    let sp = Spec { id: "C01", rule: RULE, tape_len: 200, cases: tier.pick(256, 2048), gen: gen_case, check, max_shrink_iters: 12, shards: 16 };
    let mut stats = engine::run_spec(&sp, tier, seed);
    engine::run_regressions::<Case>("C01", check, &mut stats);
    engine::finish("C01", tier, seed, RULE, stats, t0, serde_json::json!({}), &["statistical decision: false-alarm probability per case < 1e-10 (two-stage rule), power about 1-2 % relative bias at thorough N", "closed forms re-derived and validated numerically at design time", "bias confined to a region of tiny measure is invisible here and left to C02-C14"])
}
pub fn replay(path: &str) -> i32 {
    engine::replay_file::<Case>("C01", path, check)
}
