//! C15 — the matrix routine returns the true determinant, inverse and Cholesky factors.
use super::phys::{EPS, K};
use crate::engine::{self, Ctx, Failure, Spec, Tape, Tier};
use crate::fail;
use crate::gen;
use crate::oracle::graph::{q, qf};
use crate::oracle::lin::{self, QMat};
use crate::sut::{self, Mat, SutErr};
use num::Signed;
use serde::{Deserialize, Serialize};
use std::time::Instant;

pub const RULE: &str = "(every matrix is decomposed four times: plain, with the stability test on at a matrix-dependent tolerance 1e-6..1e-16, and both again with print_debug_info on; every returned decomposition is judged) cases = symmetric positive-definite matrices of dimension 1..8 built from the tape: G G^T (+ small diagonal), graded S G G^T S with S = diag(10^k), Hilbert-like 1/(i+j+1+c), Q Q^T with Q = D(I+N) and large strictly-lower N (stresses the nilpotent-series inverse), small-integer Q Q^T (Wilson type), and L matrices sum_e x_e s_e s_e^T of generated graphs with spread parameters; positive-definiteness and cond_F = |A|_F |A^-1|_F are decided in exact rational arithmetic and only cond_F <= 1e10 is asserted. oracle (exact rationals): q_transposed strictly upper triangular with positive diagonal, |R^T R - A|_F <= K eps n |A|_F, |R^-1 R - I|_F <= K eps n sqrt(cond), determinant and inverse within K eps cond (K=1000). non-trivial = n>=3 and (n in {3,5,6,7,8} or cond >= 1e4); distinct = distinct matrices";

#[derive(Clone, Debug, Serialize, Deserialize)]
pub struct Case {
    pub a: Mat,
    #[serde(default)]
    pub class: String,
}

fn symmetrise(a: &mut Mat) {
    let n = a.len();
    for i in 0..n {
        for j in 0..i {
            a[i][j] = a[j][i];
        }
    }
}
fn qqt(qm: &Mat) -> Mat {
    let n = qm.len();
    let mut a = vec![vec![0.0; n]; n];
    for i in 0..n {
        for j in i..n {
            a[i][j] = (0..n).map(|k| qm[i][k] * qm[j][k]).sum();
        }
    }
    symmetrise(&mut a);
    a
}

pub fn gen_spd(t: &mut Tape, tier: Tier) -> (Mat, &'static str) {
    let n = t.range(1, 8);
    match t.below(9) {
        8 => {
            // exact structural zeros for every n: diagonally dominant matrix with a sparse pattern (tridiagonal, arrow,
            // block diagonal, random sparse), optionally under a symmetric permutation - Cholesky fill-in and early-vanishing
            // powers of the nilpotent part depend on the pattern and on the ordering
            let mut a = vec![vec![0.0; n]; n];
            let pat = t.below(4);
            let bs = t.range(1, 3);
            for i in 0..n {
                for j in 0..i {
                    let on = match pat {
                        0 => i == j + 1,
                        1 => j == 0 || i == n - 1,
                        2 => i / bs == j / bs,
                        _ => t.chance(0.3),
                    };
                    if on {
                        let v = t.uniform(-1.0, 1.0);
                        a[i][j] = v;
                        a[j][i] = v;
                    }
                }
            }
            for i in 0..n {
                let s_: f64 = (0..n).map(|j| a[i][j].abs()).sum();
                a[i][i] = s_ + t.uniform(0.05, 2.0);
            }
            if t.bool() {
                let mut perm: Vec<usize> = (0..n).collect();
                gen::shuffle(t, &mut perm);
                let b = a.clone();
                for i in 0..n {
                    for j in 0..n {
                        a[i][j] = b[perm[i]][perm[j]];
                    }
                }
            }
            (a, "sparse-pattern")
        }
        7 => {
            // strongly coupled diagonal blocks (sizes 1..3) joined only through entries scaled by eps = 1e-6 .. 1e-30
            let g: Mat = (0..n).map(|_| (0..n).map(|_| t.uniform(-1.0, 1.0)).collect()).collect();
            let mut a = qqt(&g);
            for i in 0..n {
                a[i][i] += n as f64;
            }
            let mut block = vec![0usize; n];
            let mut b = 0;
            let mut i = 0;
            while i < n {
                let sz = t.range(1, 3);
                for k in i..(i + sz).min(n) {
                    block[k] = b;
                }
                i += sz;
                b += 1;
            }
            let eps = 10f64.powf(-t.uniform(6.0, 30.0));
            for r in 0..n {
                for c in 0..n {
                    if block[r] != block[c] {
                        a[r][c] *= eps;
                    }
                }
            }
            symmetrise(&mut a);
            (a, "weakly-joined-blocks")
        }
        6 => {
            // weakly coupled rows: some rows couple to all earlier ones only through tiny entries (1e-6 .. 1e-12 of the
            // diagonal scale) while later rows couple at order one - a well conditioned matrix with a wide dynamic range
            let g: Mat = (0..n).map(|_| (0..n).map(|_| t.uniform(-1.0, 1.0)).collect()).collect();
            let mut a = qqt(&g);
            for i in 0..n {
                a[i][i] += n as f64;
            }
            let nweak = t.range(1, n.max(2) - 1).min(n.saturating_sub(1)).max(1);
            for _ in 0..nweak {
                let k = t.range(1, n.max(2) - 1).min(n - 1);
                let eps = 10f64.powf(-t.uniform(6.0, 12.0));
                for j in 0..k {
                    a[k][j] *= eps;
                    a[j][k] = a[k][j];
                }
            }
            (a, "weakly-coupled-rows")
        }
        0 => {
            let g: Mat = (0..n).map(|_| (0..n).map(|_| t.uniform(-1.0, 1.0)).collect()).collect();
            let mut a = qqt(&g);
            let d = 10f64.powf(-t.uniform(0.0, 8.0));
            for i in 0..n {
                a[i][i] += d;
            }
            (a, "GG^T+d")
        }
        1 => {
            let g: Mat = (0..n).map(|_| (0..n).map(|_| t.uniform(-1.0, 1.0)).collect()).collect();
            let mut a = qqt(&g);
            for i in 0..n {
                a[i][i] += 0.1;
            }
            let s: Vec<f64> = (0..n).map(|_| 10f64.powi(t.range(0, 8) as i32 - 4)).collect();
            for i in 0..n {
                for j in 0..n {
                    a[i][j] *= s[i] * s[j];
                }
            }
            symmetrise(&mut a);
            (a, "graded")
        }
        2 => {
            let c = t.uniform(0.0, 3.0);
            let a: Mat = (0..n).map(|i| (0..n).map(|j| 1.0 / ((i + j + 1) as f64 + c)).collect()).collect();
            (a, "hilbert-like")
        }
        3 => {
            // Q = D (I + N), N strictly lower with large entries
            let big = 10f64.powf(t.uniform(0.0, 3.0));
            let mut qm = vec![vec![0.0; n]; n];
            for i in 0..n {
                let d = 10f64.powf(t.uniform(-2.0, 2.0));
                for j in 0..i {
                    qm[i][j] = d * t.uniform(-big, big);
                }
                qm[i][i] = d;
            }
            (qqt(&qm), "D(I+N)")
        }
        4 => {
            let mut qm = vec![vec![0.0; n]; n];
            for i in 0..n {
                for j in 0..i {
                    qm[i][j] = t.range(0, 8) as f64 - 4.0;
                }
                qm[i][i] = t.range(1, 5) as f64;
            }
            (qqt(&qm), "integer-QQ^T")
        }
        _ => {
            // L matrix of a generated graph with spread parameters
            if let Some(g) = gen::gen_phys_graph(t, tier.pick(8, 9), 5, 0.15, 3) {
                let kin = gen::gen_kin(t, &g, 4);
                let ne = g.nedges();
                let nl = kin.sig[0].len();
                let spread = *t.pick(&[6.0, 6.0, 12.0]);
                let x: Vec<f64> = (0..ne).map(|_| 10f64.powf(-t.uniform(0.0, spread))).collect();
                let mut a = vec![vec![0.0; nl]; nl];
                for i in 0..nl {
                    for j in 0..nl {
                        a[i][j] = (0..ne).map(|e| x[e] * (kin.sig[e][i] * kin.sig[e][j]) as f64).sum();
                    }
                }
                symmetrise(&mut a);
                (a, "graph-L-matrix")
            } else {
                (vec![vec![t.uniform(0.1, 10.0)]], "1x1")
            }
        }
    }
}

pub fn gen_case(t: &mut Tape, tier: Tier) -> Option<Case> {
    let (mut a, class) = gen_spd(t, tier);
    let mut class = class.to_string();
    if t.chance(0.15) {
        // exact power-of-two rescaling: the routine must be scale covariant as long as nothing leaves f64's range
        let k = t.range(0, 600) as i32 - 300;
        let n = a.len() as i32;
        if (k * n).abs() <= 900 {
            for row in a.iter_mut() {
                for v in row.iter_mut() {
                    *v *= 2f64.powi(k);
                }
            }
            class.push_str("*2^k");
        }
    }
    Some(Case { a, class })
}

pub fn exact_info(a: &Mat) -> Option<(QMat, num::BigRational, QMat, f64)> {
    let aq = lin::from_f64(a)?;
    if !lin::is_spd(&aq) {
        return None;
    }
    let (det, inv) = lin::det_inv(&aq)?;
    let cond = lin::fro(&aq) * lin::fro(&inv);
    Some((aq, det, inv, cond))
}

pub fn check(c: &Case, ctx: &mut Ctx) -> Result<(), Failure> {
    let a = &c.a;
    let n = a.len();
    if n == 0 || n > 8 || a.iter().any(|r| r.len() != n) || a.iter().flatten().any(|x| !x.is_finite()) {
        fail!("bad-case", "not a finite square matrix of dimension 1..8");
    }
    for i in 0..n {
        for j in 0..n {
            if a[i][j].to_bits() != a[j][i].to_bits() {
                fail!("bad-case", "matrix not symmetric");
            }
        }
    }
    if !c.class.is_empty() {
        ctx.label(format!("class:{}", c.class));
    }
    ctx.label(format!("n={n}"));
    let Some((aq, detq, invq, cond)) = exact_info(a) else {
        ctx.label("excluded:not-positive-definite(exactly)");
        return Ok(());
    };
    if !(cond <= 1e10) {
        ctx.label("excluded:cond>1e10");
        return Ok(());
    }
    // magnitude guard (oracle side): determinant, its square root and every entry of A and A^-1 within [1e-280, 1e280]
    {
        let mags = [qf(&detq.abs()), lin::fro(&aq), lin::fro(&invq)];
        if mags.iter().any(|m| !(*m > 1e-280 && *m < 1e280)) || a.iter().flatten().any(|x| *x != 0.0 && x.abs() < 1e-280) {
            ctx.label("excluded:magnitudes-outside-1e+-280");
            return Ok(());
        }
    }
    // the returned decomposition is judged under every setting that returns one: plain, with print_debug_info on, and
    // with the stability test on at a tolerance that, depending on the matrix, accepts or refuses
    let hb = a.iter().flatten().fold(11u64, |acc, v| acc.wrapping_mul(1_000_003).wrapping_add(v.to_bits()));
    let tol_h = [1e-6, 1e-10, 1e-13, 1e-15, 1e-16][(hb % 5) as usize];
    for (stab, dbg) in [(None, false), (Some(tol_h), false), (None, true), (Some(tol_h), true)] {
    let dec = match sut::decompose_dbg(a, stab, dbg) {
        Ok(d) => d,
        Err(SutErr::Panic(m)) => fail!("decompose-panic", "decompose_for_tropical panicked: {m} on {a:?} (stability {stab:?}, debug {dbg})"),
        Err(SutErr::Unstable) if stab.is_some() => {
            ctx.label("stability-test:refused");
            continue;
        }
        Err(e) => fail!("spd-rejected", "decompose_for_tropical returned {e:?} for an SPD matrix with cond_F = {cond:e}: {a:?} (stability {stab:?}, debug {dbg})"),
    };
    if stab.is_some() {
        ctx.label("stability-test:accepted");
    }
    let nn = n as f64;
    // shape of the factor
    for i in 0..n {
        if !(dec.qt[i][i] > 0.0) {
            fail!("factor-diagonal", "q_transposed[{i}][{i}] = {} is not positive; A = {a:?}", dec.qt[i][i]);
        }
        for j in 0..i {
            if dec.qt[i][j] != 0.0 {
                fail!("factor-not-upper", "q_transposed[{i}][{j}] = {} below the diagonal", dec.qt[i][j]);
            }
        }
    }
    let Some(r) = lin::from_f64(&dec.qt) else { fail!("nonfinite-output", "q_transposed not finite for {a:?}") };
    let Some(ri) = lin::from_f64(&dec.qti) else { fail!("nonfinite-output", "q_transposed_inverse not finite for {a:?}") };
    let Some(inv) = lin::from_f64(&dec.inv) else { fail!("nonfinite-output", "inverse not finite for {a:?}") };
    if !dec.det.is_finite() {
        fail!("nonfinite-output", "determinant not finite for {a:?}");
    }
    let a_fro = lin::fro(&aq);
    let e1 = lin::fro(&lin::sub(&lin::matmul(&lin::transpose(&r), &r), &aq));
    let t1 = K * EPS * nn * a_fro;
    ctx.max("RtR_minus_A_over_tol", e1 / t1);
    if !(e1 <= t1) {
        fail!("factor-product", "|R^T R - A|_F = {e1:e} > {t1:e} (cond {cond:e}); A = {a:?}, R = {:?}", dec.qt);
    }
    let e2 = lin::fro(&lin::sub(&lin::matmul(&ri, &r), &lin::identity(n)));
    let t2 = K * EPS * nn * cond.sqrt();
    ctx.max("RinvR_minus_I_over_tol", e2 / t2);
    if !(e2 <= t2) {
        fail!("factor-inverse", "|R^-1 R - I|_F = {e2:e} > {t2:e} (cond {cond:e}); A = {a:?}, R^-1 = {:?}", dec.qti);
    }
    let e3 = qf(&((q(dec.det) - &detq) / &detq).abs());
    let t3 = K * EPS * cond;
    ctx.max("det_rel_over_tol", e3 / t3);
    if !(e3 <= t3) {
        fail!("determinant", "determinant {:e} but exact {:e} (rel {e3:e} > {t3:e}); A = {a:?}", dec.det, qf(&detq));
    }
    let e4 = lin::fro(&lin::sub(&inv, &invq)) / lin::fro(&invq);
    let t4 = K * EPS * cond;
    ctx.max("inverse_rel_over_tol", e4 / t4);
    if !(e4 <= t4) {
        fail!("inverse", "|inverse - A^-1|_F/|A^-1|_F = {e4:e} > {t4:e} (cond {cond:e}); A = {a:?}, inverse = {:?}", dec.inv);
    }
    }
    if n >= 3 && ([3, 5, 6, 7, 8].contains(&n) || cond >= 1e4) {
        ctx.nontrivial();
    }
    if cond >= 1e4 {
        ctx.label("cond>=1e4");
    }
    if cond >= 1e8 {
        ctx.label("cond>=1e8");
    }
    Ok(())
}

pub fn run(tier: Tier, seed: u64) -> i32 {
    let t0 = Instant::now();
    let sp = Spec { id: "C15", rule: RULE, tape_len: 260, cases: tier.pick(20_000, 300_000), gen: gen_case, check, max_shrink_iters: 3000, shards: 16 };
    let mut stats = engine::run_spec(&sp, tier, seed);
    engine::run_regressions::<Case>("C15", check, &mut stats);
    let extra = super::fuzzrun::maybe_fuzz("C15", "matrix_decomp", tier, seed, &mut stats, serde_json::json!({}));
    engine::finish("C15", tier, seed, RULE, stats, t0, extra, &["exact rational Gauss-Jordan as reference (num::BigRational)", "tolerance K*eps*cond_F with K=1000 (measured worst ratio on the pinned tree about 2)"])
}
pub fn replay(path: &str) -> i32 {
    engine::replay_file::<Case>("C15", path, check)
}
