//! Thorough tier: coverage-guided campaigns with cargo-fuzz (libFuzzer) over the byte-decodable domains.
//! The fuzz targets live in harness/fuzz and share the oracles of this crate; a crash is converted into a
//! failure with the tape that reproduces it through the same generator.
use crate::engine::{Stats, Tier};
use serde_json::Value;

/// placeholder wiring: filled in once the fuzz crate exists (see harness/fuzz)
pub fn maybe_fuzz(_id: &str, _target: &str, _tier: Tier, _seed: u64, _stats: &mut Stats, extra: Value) -> Value {
    extra
}
