//! Coverage-guided campaigns (cargo-fuzz / libFuzzer) over the byte-decodable domains, thorough tier.
//! The fuzz targets (harness/fuzz) decode bytes into the same choice tape the proptest generators read and
//! run the same oracle in-process; a crash artifact is decoded again here and becomes an ordinary replay file.
use crate::engine::{self, Ctx, Failure, Stats, Tape, Tier};
use serde_json::{json, Value};
use std::process::Command;

pub fn tape_from_bytes(data: &[u8]) -> Vec<u64> {
    data.chunks(8)
        .map(|c| {
            let mut b = [0u8; 8];
            b[..c.len()].copy_from_slice(c);
            u64::from_le_bytes(b)
        })
        .collect()
}
pub fn bytes_from_tape(t: &[u64]) -> Vec<u8> {
    t.iter().flat_map(|v| v.to_le_bytes()).collect()
}

/// run generator + oracle of a target on one input; Some((failure, case)) on a violation
pub fn run_target(target: &str, data: &[u8]) -> Option<(Failure, Value)> {
    let tp = tape_from_bytes(data);
    let mut t = Tape::new(&tp);
    let mut ctx = Ctx::default();
    macro_rules! go {
        ($gen:expr, $check:expr) => {{
            let c = $gen(&mut t, Tier::Thorough)?;
            match $check(&c, &mut ctx) {
                Ok(()) => None,
                Err(f) => Some((f, serde_json::to_value(&c).unwrap_or(Value::Null))),
            }
        }};
    }
    match target {
        "gamma_quantile" => go!(super::c12::gen_case, super::c12::check),
        "graph_table" => {
            // one tape, two oracles: table contents (C03) and the accept/reject decision (C05)
            let g = super::c03::gen_case(&mut t, Tier::Thorough)?;
            if let Err(f) = super::c03::check(&g, &mut ctx) {
                return Some((f, serde_json::to_value(&g).unwrap_or(Value::Null)));
            }
            let c5 = super::c05::Case { g: g.clone(), pushed: None };
            if let Err(f) = super::c05::check(&c5, &mut ctx) {
                return Some((Failure::new(format!("C05:{}", f.signature), f.message), serde_json::to_value(&c5).unwrap_or(Value::Null)));
            }
            if g.nedges() <= 9 {
                if let Err(f) = super::c04::check(&g, &mut ctx) {
                    return Some((Failure::new(format!("C04:{}", f.signature), f.message), serde_json::to_value(&g).unwrap_or(Value::Null)));
                }
            }
            None
        }
        "edge_select" => go!(super::c06::gen_case, super::c06::check),
        "sampling" => {
            // one generated sampling case, every deterministic sampling oracle (C09 with its two routings, then
            // C07, C08, C10, C11, C02 on the first routing)
            let c = super::c09::gen_case(&mut t, Tier::Thorough)?;
            let cj = serde_json::to_value(&c).unwrap_or(Value::Null);
            if let Err(f) = super::c09::check(&c, &mut ctx) {
                return Some((f, cj));
            }
            let pj = serde_json::to_value(&c.a).unwrap_or(Value::Null);
            type Chk = fn(&crate::gen::Phys, &mut Ctx) -> Result<(), Failure>;
            let others: [(&str, Chk); 5] = [("C07", super::c07::check), ("C08", super::c08::check), ("C10", super::c10::check), ("C11", super::c11::check), ("C02", super::c02::check)];
            // the tropical comparisons of C07, C11, C02 presuppose generic momenta (DESIGN section 10, domain limits)
            let generic = !crate::oracle::sym::Sym::new(&c.a.g, &c.a.kin.inflow, &c.a.kin.masses).degenerate_momenta;
            for (id, chk) in others {
                if !generic && matches!(id, "C07" | "C11" | "C02") {
                    continue;
                }
                if let Err(f) = chk(&c.a, &mut ctx) {
                    return Some((Failure::new(format!("{id}:{}", f.signature), f.message), pj));
                }
            }
            None
        }
        "matrix_decomp" => {
            let c = super::c15::gen_case(&mut t, Tier::Thorough)?;
            if let Err(f) = super::c15::check(&c, &mut ctx) {
                return Some((f, serde_json::to_value(&c).unwrap_or(Value::Null)));
            }
            let c16 = super::c16::gen_case(&mut t, Tier::Thorough)?;
            match super::c16::check(&c16, &mut ctx) {
                Ok(()) => None,
                Err(f) => Some((Failure::new(format!("C16:{}", f.signature), f.message), serde_json::to_value(&c16).unwrap_or(Value::Null))),
            }
        }
        _ => None,
    }
}

/// entry point used by the libFuzzer targets
pub fn fuzz_entry(target: &str, data: &[u8]) {
    use std::sync::Once;
    static INIT: Once = Once::new();
    INIT.call_once(|| {
        // libfuzzer-sys installs an aborting panic hook; the oracles rely on catch_unwind around the code under test
        engine::install_panic_hook();
    });
    let known = engine::load_known();
    if let Some((f, _case)) = run_target(target, data) {
        if f.signature.ends_with("bad-case") {
            // the decoded input lies outside a property's domain: nothing to decide
            return;
        }
        let id = target_property(target, &f);
        if engine::known_match(&known, id, &f).is_some() {
            return;
        }
        eprintln!("FUZZ-VIOLATION target={target} signature={} message={}", f.signature, engine::truncate(&f.message, 600));
        std::process::abort();
    }
}
fn target_property(target: &str, f: &Failure) -> &'static str {
    match (target, f.signature.split(':').next().unwrap_or("")) {
        (_, "C05") => "C05",
        (_, "C04") => "C04",
        (_, "C16") => "C16",
        (_, "C07") => "C07",
        (_, "C08") => "C08",
        (_, "C10") => "C10",
        (_, "C11") => "C11",
        (_, "C02") => "C02",
        ("sampling", _) => "C09",
        ("gamma_quantile", _) => "C12",
        ("graph_table", _) => "C03",
        ("edge_select", _) => "C06",
        _ => "C15",
    }
}

/// thorough tier: build and run a libFuzzer campaign with a fixed number of runs; quick tier: nothing
pub fn maybe_fuzz(id: &str, target: &str, tier: Tier, seed: u64, stats: &mut Stats, mut extra: Value) -> Value {
    if tier != Tier::Thorough || std::env::var("VERIF_NO_FUZZ").is_ok() {
        return extra;
    }
    let root = engine::verif_root();
    let fdir = root.join("harness").join("fuzz");
    let tdir = fdir.join("target");
    let build = Command::new("cargo").args(["+nightly", "fuzz", "build", "--fuzz-dir"]).arg(&fdir).arg("--target-dir").arg(&tdir).arg(target).env("CARGO_NET_OFFLINE", "true").current_dir(root.join("harness")).output();
    match build {
        Ok(o) if o.status.success() => {}
        Ok(o) => {
            extra["fuzz"] = json!(format!("fuzz build failed (campaign skipped, reported as inconclusive part): {}", engine::truncate(&String::from_utf8_lossy(&o.stderr), 400)));
            return extra;
        }
        Err(e) => {
            extra["fuzz"] = json!(format!("cargo fuzz not runnable: {e}"));
            return extra;
        }
    }
    // fresh corpus seeded with tapes drawn from proptest's generator (full-length inputs from the start)
    let corpus = fdir.join("corpus").join(format!("{target}-{seed}"));
    let _ = std::fs::remove_dir_all(&corpus);
    let _ = std::fs::create_dir_all(&corpus);
    let tape_len = match target {
        "gamma_quantile" => 24,
        _ => 300,
    };
    for (i, tp) in engine::sample_tapes(target, seed, 64, tape_len).iter().enumerate() {
        let _ = std::fs::write(corpus.join(format!("seed{i:03}")), bytes_from_tape(tp));
    }
    let art = fdir.join("artifacts").join(target);
    let _ = std::fs::create_dir_all(&art);
    let runs: u64 = match target {
        "gamma_quantile" => 3_000_000,
        "graph_table" => 300_000,
        "sampling" => 400_000,
        _ => 600_000,
    };
    let bin = tdir.join("x86_64-unknown-linux-gnu").join("release").join(target);
    let jobs = 8;
    let out = Command::new(&bin)
        .arg(&corpus)
        .arg(format!("-runs={runs}"))
        .arg(format!("-seed={}", (seed % 0xFFFF_FFFE) + 1))
        .arg(format!("-max_len={}", tape_len * 8))
        .arg("-len_control=0")
        .arg(format!("-artifact_prefix={}/", art.display()))
        .arg(format!("-fork={jobs}"))
        .arg("-ignore_crashes=0")
        .env("VERIF_ROOT", &root)
        .output();
    let mut nexec = 0u64;
    match out {
        Err(e) => {
            extra["fuzz"] = json!(format!("fuzz target not runnable: {e}"));
        }
        Ok(o) => {
            let log = String::from_utf8_lossy(&o.stderr).to_string();
            for line in log.lines() {
                if let Some(p) = line.find("stat::number_of_executed_units:") {
                    nexec += line[p + 31..].trim().parse::<u64>().unwrap_or(0);
                }
                if line.starts_with('#') {
                    if let Some(n) = line[1..].split_whitespace().next().and_then(|s| s.trim_end_matches(':').parse::<u64>().ok()) {
                        nexec = nexec.max(n);
                    }
                }
                if let Some(p) = line.find("INFO: fuzzed for ") {
                    if let Some(n) = line[p + 17..].split_whitespace().next().and_then(|s| s.parse::<u64>().ok()) {
                        nexec = nexec.max(n);
                    }
                }
            }
            // any artifact = a crash: decode and re-run through the plain oracle
            let mut crashes = 0;
            if let Ok(rd) = std::fs::read_dir(&art) {
                for e in rd.flatten() {
                    let name = e.file_name().to_string_lossy().to_string();
                    if !(name.starts_with("crash-") || name.starts_with("timeout-") || name.starts_with("oom-")) {
                        continue;
                    }
                    if let Ok(data) = std::fs::read(e.path()) {
                        if let Some((f, case)) = run_target(target, &data).filter(|(f, _)| !f.signature.ends_with("bad-case")) {
                            crashes += 1;
                            let sig = f.signature.clone();
                            let owner = target_property(target, &f);
                            if owner == id {
                                stats.failures.push((Failure::new(format!("fuzz:{sig}"), f.message), case));
                            } else {
                                extra[format!("fuzz_found_violation_of_{owner}")] = json!(f.message);
                            }
                        }
                    }
                    let _ = std::fs::remove_file(e.path());
                }
            }
            extra["fuzz"] = json!({"engine": "libFuzzer (cargo-fuzz)", "target": target, "executions": nexec, "requested_runs": runs, "crashing_inputs_confirmed_by_oracle": crashes, "exit": o.status.code()});
        }
    }
    let _ = std::fs::remove_dir_all(&corpus);
    extra
}
