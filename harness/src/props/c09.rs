//! C09 — v*u is the second Symanzik polynomial F; u, v, jacobian do not depend on the routing.
use super::phys::{self, rel, Eval, EPS};
use crate::engine::{self, Ctx, Failure, Spec, Tape, Tier};
use crate::fail;
use crate::gen::{self, Kin, Phys};
use crate::sut;
use crate::with_d;
use serde::{Deserialize, Serialize};
use std::time::Instant;

pub const RULE: &str = "cases = accepted connected graphs (G-phys, E<=8 (thorough 9), L<=5, D=1..6), masses in [0.3,2], generic external momenta conserving momentum, TWO independent routings of the same kinematics (different spanning tree, unimodular column operations, orientation flips, loop-momentum offsets) and one structured x-space point. oracle: v against F/U from brute-force spanning 2-forests (+U*sum m^2 x) within 1000*eps*kappa*c_V, metadata u_vectors against sum_e x_e s_el p_e, and u, v, jacobian of the two routings agree; multiplying all masses and momenta by 2^k (|k|<=120) leaves u bit-identical, multiplies v by 4^k and the jacobian by 2^(-2k dod). non-trivial = in-range point and (L>=2 with two non-zero u-vectors, or a massive edge, or a loop-momentum offset); distinct = distinct case encodings";

#[derive(Clone, Debug, Serialize, Deserialize)]
pub struct Case {
    pub a: Phys,
    /// second routing of the same graph / kinematics / point
    pub kin2: Kin,
}

pub fn gen_case(t: &mut Tape, tier: Tier) -> Option<Case> {
    let mo = if t.chance(0.3) { 1.0 / 64.0 } else { 0.15 };
    let g = gen::gen_phys_graph(t, tier.pick(8, 9), 8, mo, 6)?;
    let (free, masses) = if t.chance(0.2) { gen::gen_kin_data_special(t, &g) } else { gen::gen_kin_data(t, &g) };
    let kin = gen::gen_routing(t, &g, &free, &masses, tier.pick(4, 6));
    let kin2 = gen::gen_routing(t, &g, &free, &masses, tier.pick(4, 6));
    let (x, classes) = gen::gen_point(t, &g, &gen::MODERATE);
    if !crate::oracle::sym::Sym::new(&g, &kin.inflow, &kin.masses).f_nonzero() {
        return None;
    }
    let mut a = Phys { g, kin, x, classes: classes.into_iter().map(String::from).collect() };
    let mut kin2 = kin2;
    if !t.chance(0.9) {
        // edge data that contradicts the mass flags (see C10): F is algebraic in the masses actually supplied
        gen::contradict_mass_flags(t, &mut a);
        kin2.masses = a.kin.masses.clone();
        if !crate::oracle::sym::Sym::new(&a.g, &a.kin.inflow, &a.kin.masses).f_nonzero() {
            return None;
        }
    }
    Some(Case { a, kin2 })
}

/// the fresh evaluation used a freshly built (not a restored) sampler for this case
fn hx_fresh(p: &Phys) -> bool {
    p.x.iter().fold(0u64, |a, v| a.wrapping_mul(31).wrapping_add(v.to_bits())) % 4 != 1
}
pub fn assert_v(c: &Phys, ev: &Eval, ctx: &mut Ctx) -> Result<bool, Failure> {
    let (ne, nl) = (ev.ne, ev.nl);
    let d = c.g.d;
    let Some(md) = ev.out.meta.as_ref() else { fail!("no-metadata", "return_metadata=true but no metadata returned") };
    // u vectors
    if md.uvec.len() != nl {
        fail!("u-vectors-len", "{} u-vectors for {nl} loops", md.uvec.len());
    }
    for l in 0..nl {
        for i in 0..d {
            let want: f64 = (0..ne).map(|e| ev.xs[e] * c.kin.sig[e][l] as f64 * c.kin.shifts[e][i]).sum();
            let absum: f64 = (0..ne).map(|e| (ev.xs[e] * c.kin.sig[e][l] as f64 * c.kin.shifts[e][i]).abs()).sum();
            let tol = 8.0 * (ne as f64 + 1.0) * EPS * absum;
            if !((md.uvec[l][i] - want).abs() <= tol) {
                fail!("u-vector", "u_vectors[{l}][{i}]={} but sum_e x_e s_el p_e = {want} (tol {tol:e})", md.uvec[l][i]);
            }
        }
    }
    if !ev.in_range {
        ctx.label("excluded:out-of-range");
        return Ok(false);
    }
    if ev.tau_v > 1e-3 {
        ctx.label("excluded:ill-conditioned");
        return Ok(false);
    }
    let v = ev.out.v;
    let nterms = (ev.sym.forests.len() + ev.sym.mass_sq_terms.len() + ev.sym.trees.len()) as f64;
    let tol = ev.tau_v + 4.0 * nterms * ne as f64 * EPS;
    let r = rel(v, ev.v_or);
    ctx.max("v_vs_F_over_U_over_tol", r / tol);
    if !(r <= tol) {
        fail!("v-vs-F-over-U", "v={v:e} but F/U from spanning 2-forests = {:e} (rel {r:e} > {tol:e}; kappa={:e}, c_V={:e}) for {c:?}", ev.v_or, ev.kappa, ev.cv);
    }
    Ok(true)
}

fn check_d<const D: usize>(c: &Case, ctx: &mut Ctx) -> Result<(), Failure> {
    phys::classes_label(&c.a, ctx);
    let Some(ev) = phys::evaluate::<D>(&c.a, ctx, None)? else { return Ok(()) };
    let ok1 = assert_v(&c.a, &ev, ctx)?;
    let b = Phys { g: c.a.g.clone(), kin: c.kin2.clone(), x: c.a.x.clone(), classes: c.a.classes.iter().filter(|s| s.starts_with("mass-given:")).cloned().collect() };
    let Some(ev2) = phys::evaluate::<D>(&b, ctx, None)? else { return Ok(()) };
    let ok2 = assert_v(&b, &ev2, ctx)?;
    if !(ok1 && ok2) {
        return Ok(());
    }
    // same point => same Feynman parameters, whatever the routing
    if ev.xs.iter().zip(&ev2.xs).any(|(a, b)| a.to_bits() != b.to_bits()) {
        fail!("params-depend-on-routing", "Feynman parameters differ between two routings of the same point: {:?} vs {:?}", ev.xs, ev2.xs);
    }
    let ru = rel(ev.out.u, ev2.out.u);
    let tu = ev.tau_u + ev2.tau_u;
    if !(ru <= tu) {
        fail!("u-routing-dependent", "u differs between routings: {:e} vs {:e} (rel {ru:e} > {tu:e}) for {c:?}", ev.out.u, ev2.out.u);
    }
    let rv = rel(ev.out.v, ev2.out.v);
    let tv = ev.tau_v + ev2.tau_v;
    ctx.max("v_two_routings_over_tol", rv / tv);
    if !(rv <= tv) {
        fail!("v-routing-dependent", "v differs between routings: {:e} vs {:e} (rel {rv:e} > {tv:e}) for {c:?}", ev.out.v, ev2.out.v);
    }
    let rj = rel(ev.out.jac, ev2.out.jac);
    let tj = (D as f64 / 2.0) * tu + ev.dod.abs() * tv + 256.0 * EPS * (1.0 + ev.out.u.ln().abs() * D as f64 / 2.0 + ev.out.v.ln().abs() * ev.dod.abs());
    ctx.max("jac_two_routings_over_tol", rj / tj);
    if !(rj <= tj) {
        fail!("jacobian-routing-dependent", "jacobian differs between routings: {:e} vs {:e} (rel {rj:e} > {tj:e}) for {c:?}", ev.out.jac, ev2.out.jac);
    }
    // metamorphic: all masses and momenta times 2^k (exact in binary): u unchanged, v times 4^k, loop momenta times 2^k,
    // jacobian times 2^(-2 k dod)
    {
        let kx = (c.a.x.iter().fold(0u64, |a, v| a.wrapping_mul(31).wrapping_add(v.to_bits())) % 241) as i32 - 120;
        let sc = 2f64.powi(kx);
        let mut b2 = c.a.clone();
        b2.kin.masses.iter_mut().for_each(|m| *m *= sc);
        b2.kin.shifts.iter_mut().for_each(|p| p.iter_mut().for_each(|x| *x *= sc));
        b2.kin.inflow.iter_mut().for_each(|(_, p)| p.iter_mut().for_each(|x| *x *= sc));
        let finite = b2.kin.masses.iter().chain(b2.kin.shifts.iter().flatten()).all(|x| x.is_finite() && (*x == 0.0 || x.abs() > 1e-150 && x.abs() < 1e150));
        if finite && kx != 0 {
            let g = &c.a.g;
            let s = sut::build::<D>(g, c.a.kin.sig.clone());
            if let Ok(s) = s {
                let r2 = sut::sample_f64(&s, &c.a.x, sut::edge_data::<D>(&c.a.mass_given(), &b2.kin.masses, &b2.kin.shifts), None, false, false);
                if let Ok(o2) = r2 {
                    if o2.all_finite() && ev.out.all_finite() {
                        if o2.u.to_bits() != ev.out.u.to_bits() {
                            fail!("u-depends-on-kinematic-scale", "u changes when masses and momenta are multiplied by 2^{kx}: {:e} vs {:e}", o2.u, ev.out.u);
                        }
                        let want_v = ev.out.v * sc * sc;
                        if want_v.is_finite() && want_v > 1e-280 && !(rel(o2.v, want_v) <= 8.0 * EPS) {
                            fail!("v-scaling", "v does not scale with the square of the kinematic scale 2^{kx}: {:e} vs 4^k * {:e}; case {c:?}", o2.v, ev.out.v);
                        }
                        // the exponent is the sampler's own dod; its rounding (sum of weights) is amplified by 2|k| ln 2
                        let dod_sut = ev.tab.dod;
                        let want_j = ev.out.jac * 2f64.powf(-2.0 * kx as f64 * dod_sut);
                        let dod_round = 8.0 * (ev.ne as f64 + 2.0) * EPS * (g.wsum_abs() + (ev.nl * D) as f64);
                        let tol_j = 64.0 * EPS * (1.0 + ev.dod.abs() * (o2.v.ln().abs() + ev.out.v.ln().abs())) + 2.0 * (kx.abs() as f64) * std::f64::consts::LN_2 * dod_round;
                        // every factor of the weight must stay a normal f64 number (no subnormal intermediates)
                        let factors_normal = (2.0 * kx as f64 * dod_sut).abs() * std::f64::consts::LN_2 < 600.0 && ev.dod.abs() * o2.v.ln().abs() < 600.0 && ev.dod.abs() * ev.out.v.ln().abs() < 600.0 && (D as f64 / 2.0) * o2.u.ln().abs() < 600.0 && o2.jac > 1e-250 && o2.jac < 1e250;
                        if factors_normal && want_j.is_finite() && want_j > 1e-250 && want_j < 1e250 && !(rel(o2.jac, want_j) <= tol_j) {
                            fail!("jacobian-scaling", "jacobian does not scale as (2^{kx})^(-2 dod): {:e} vs {want_j:e}; case {c:?}", o2.jac);
                        }
                        ctx.label("scaling-relation-checked");
                    }
                }
            }
        }
    }
    // a sampler must not remember the edge data of an earlier call: evaluate once with all masses zero, then with
    // the real masses, and compare with the fresh evaluation above
    {
        let g = &c.a.g;
        if let Ok(s) = sut::build::<D>(g, c.a.kin.sig.clone()) {
            let zero = vec![0.0; g.nedges()];
            let _ = sut::sample_f64(&s, &c.a.x, sut::edge_data::<D>(&c.a.mass_given(), &zero, &c.a.kin.shifts), None, false, false);
            if let Ok(o) = sut::sample_f64(&s, &c.a.x, sut::edge_data::<D>(&c.a.mass_given(), &c.a.kin.masses, &c.a.kin.shifts), None, false, false) {
                if o.bits() != ev.out.bits() && hx_fresh(&c.a) {
                    fail!("edge-data-remembered", "after one evaluation with all masses zero, the same sampler gives a different result for the real masses than a fresh sampler: v = {:e} vs {:e}; case {c:?}", o.v, ev.out.v);
                }
            }
        }
    }
    let md = ev.out.meta.as_ref().unwrap();
    let nz: usize = md.uvec.iter().filter(|u| u.iter().any(|x| *x != 0.0)).count();
    let offset = {
        // a chord (an edge that is the only one carrying some loop) with non-zero shift indicates an offset / non-tree routing
        c.a.kin.sig != c.kin2.sig
    };
    if (ev.nl >= 2 && nz >= 2) || c.a.g.massive.iter().any(|&m| m) || offset {
        ctx.nontrivial();
    }
    Ok(())
}
pub fn check(c: &Case, ctx: &mut Ctx) -> Result<(), Failure> {
    phys::validate(&c.a)?;
    let b = Phys { g: c.a.g.clone(), kin: c.kin2.clone(), x: c.a.x.clone(), classes: c.a.classes.iter().filter(|s| s.starts_with("mass-given:")).cloned().collect() };
    phys::validate(&b)?;
    with_d!(c.a.g.d, check_d(c, ctx))
}
pub fn gen_case_large(t: &mut Tape, tier: Tier) -> Option<Case> {
    let g = gen::gen_phys_graph_large(t, 6)?;
    let (free, masses) = if t.chance(0.2) { gen::gen_kin_data_special(t, &g) } else { gen::gen_kin_data(t, &g) };
    let kin = gen::gen_routing(t, &g, &free, &masses, tier.pick(4, 6));
    let kin2 = gen::gen_routing(t, &g, &free, &masses, tier.pick(4, 6));
    let (x, mut classes) = gen::gen_point(t, &g, &gen::MODERATE);
    classes.push(if g.num_loops() >= 9 { "graph:9-11-loops" } else { "graph:13-14-edges" });
    if !crate::oracle::sym::Sym::new(&g, &kin.inflow, &kin.masses).f_nonzero() {
        return None;
    }
    Some(Case { a: Phys { g, kin, x, classes: classes.into_iter().map(String::from).collect() }, kin2 })
}
pub fn run(tier: Tier, seed: u64) -> i32 {
    let t0 = Instant::now();
    let sp = Spec { id: "C09", rule: RULE, tape_len: 320, cases: tier.pick(60_000, 600_000), gen: gen_case, check, max_shrink_iters: 3000, shards: 16 };
    let mut stats = engine::run_spec(&sp, tier, seed);
    // rare class with its own budget: 13/14-edge graphs (2^13 / 2^14 table entries, > 12 edges)
    let spl = Spec { id: "C09", rule: RULE, tape_len: 520, cases: tier.pick(96, 1_200), gen: gen_case_large, check, max_shrink_iters: 40, shards: 16 };
    stats.merge(engine::run_spec(&spl, tier, seed ^ 0x1a26e));
    engine::run_regressions::<Case>("C09", check, &mut stats);
    let extra = super::fuzzrun::maybe_fuzz("C09", "sampling", tier, seed, &mut stats, serde_json::json!({}));
    engine::finish("C09", tier, seed, RULE, stats, t0, extra, &["Feynman parameters read from the crate's debug log (checked by C07)", "brute-force 2-forest enumeration as oracle for F (all terms non-negative)", "tolerance 1000*eps*kappa*c_V with kappa, c_V computed exactly"])
}
pub fn replay(path: &str) -> i32 {
    engine::replay_file::<Case>("C09", path, check)
}
