//! C04 — J obeys its recursion exactly; I_tr and the cached normalisation follow.
use crate::engine::{self, Ctx, Failure, Spec, Tape, Tier};
use crate::fail;
use crate::gen;
use crate::oracle::gamma::ln_gamma;
use crate::oracle::graph::{q, qf, G, Q};
use crate::oracle::jfun;
use crate::sut::{self, BuildErr};
use crate::with_d;
use num::{One, Signed, Zero};
use std::time::Instant;

pub const RULE: &str = "(besides the single graphs described next: families of sibling graphs as in C03 - a base graph, copies differing in exactly one attribute, the base again - built one after the other on one thread, each member checked by the same oracle) cases = graphs accepted by build_sampler, half arbitrary multigraphs (G-graph incl. non-spanning full graphs, several components) and half connected physical graphs (G-phys, L<=5); for each: J(empty)=1, the local recursion on the table's own values for every subset (exact rationals), J recomputed from the table's omegas alone by exact recursion and (E<=6, thorough 7) by the sum over all E! orderings, edge probabilities summing to 1 for every subset, cached_factor against own Gamma. non-trivial = E>=3 and (unequal weights or a massive edge or a non-spanning full graph); distinct = distinct graph encodings";

pub fn gen_case(t: &mut Tape, tier: Tier) -> Option<G> {
    if t.bool() {
        let mut g = gen::gen_any_graph(t, tier);
        if g.nedges() > tier.pick(10, 12) {
            return None;
        }
        if t.chance(0.02) {
            // propagator powers beyond 171: Gamma(w) overflows in f64 (recorded as a known finding)
            let f = t.uniform(172.0, 400.0) / g.weights.iter().cloned().fold(0.0, f64::max);
            for w in g.weights.iter_mut() {
                *w = (*w * f * 2.0).round() / 2.0;
            }
        } else if t.chance(0.2) {
            // a barely convergent subgraph: omega a few ulps (or 1/64, 1e-6, ...) above zero
            gen::push_to_boundary(t, &mut g);
        }
        Some(g)
    } else {
        let mo = if t.bool() { 0.15 } else { 1.0 / 64.0 };
        gen::gen_phys_graph(t, tier.pick(7, 9), 5, mo, 6)
    }
}

fn check_d<const D: usize>(g: &G, ctx: &mut Ctx) -> Result<(), Failure> {
    let ne = g.nedges();
    let nl = g.num_loops();
    let s = match sut::build::<D>(g, sut::dummy_sig(ne, nl)) {
        Ok(s) => s,
        Err(BuildErr::Rejected(_)) => {
            ctx.label("build:rejected");
            return Ok(());
        }
        Err(BuildErr::Panic(_)) => {
            ctx.label("build:panic");
            return Ok(());
        }
    };
    ctx.label("build:accepted");
    let tab = match sut::table_of(&s) {
        Ok(t) => t,
        Err(e) => fail!("table-unreadable", "cannot read table: {e}"),
    };
    let n = 1usize << ne;
    if tab.entries.len() != n {
        fail!("table-size", "table has {} entries, expected 2^{ne}", tab.entries.len());
    }
    let omega: Vec<f64> = tab.entries.iter().map(|e| e.omega).collect();
    let jt: Vec<f64> = tab.entries.iter().map(|e| e.j).collect();
    if jt.iter().any(|j| !j.is_finite()) || omega.iter().any(|o| !o.is_finite()) {
        fail!("nonfinite", "accepted graph has a non-finite J or omega: {g:?}");
    }
    if jt[0] != 1.0 {
        fail!("j-empty", "J(empty) = {} instead of 1", jt[0]);
    }
    let eps = f64::EPSILON;
    let full = n - 1;
    // the omegas the recursion runs on must be THIS graph's generalised degrees of divergence (exact reference; decided
    // in detail by C03, repeated here so that J is tied to the graph and not merely to whatever table was stored)
    {
        let dyadic = g.weights.iter().all(|w| (w * 64.0).fract() == 0.0 && *w < 1024.0);
        let scale = g.wsum_abs() + (nl * D) as f64 / 2.0 + 1.0;
        let tol_om = if dyadic { 0.0 } else { 4.0 * (ne as f64 + 2.0) * eps * scale };
        for m in 0..n {
            let diff = qf(&(q(omega[m]) - g.omega_q(m)).abs());
            if !(diff <= tol_om) {
                fail!("omega-of-another-graph", "subset {m:#b}: the table's omega {} is not this graph's generalised degree of divergence {} (diff {diff:e}) for {g:?}", omega[m], qf(&g.omega_q(m)));
            }
        }
    }
    // the full graph's omega never enters J; proper subsets of an accepted graph have omega > 0
    let jq: Vec<Q> = jt.iter().map(|&x| q(x)).collect();
    let oq: Vec<Q> = omega.iter().map(|&x| q(x)).collect();
    let tol_local = 8.0 * (ne as f64 + 1.0) * eps;
    for m in 1..n {
        let mut s_ = Q::zero();
        for e in 0..ne {
            if m >> e & 1 == 1 {
                let w = m ^ (1 << e);
                s_ += &jq[w] / &oq[w];
            }
        }
        // local recursion: J(g) == sum_e J(g\e)/omega(g\e) on the table's own numbers
        let rel = qf(&((&jq[m] - &s_) / &s_).abs());
        ctx.max("local_recursion_rel_err_over_tol", rel / tol_local);
        if !(rel <= tol_local) {
            fail!("j-local-recursion", "subset {m:#b}: table J={} but sum_e J(g\\e)/omega(g\\e) over the table's own entries = {} (rel {rel:e}) for {g:?}", jt[m], qf(&s_));
        }
        // probabilities sum to one
        let psum = &s_ / &jq[m];
        let dev = qf(&(psum - Q::one()).abs());
        if !(dev <= 64.0 * ne as f64 * eps) {
            fail!("prob-sum", "subset {m:#b}: edge probabilities sum to 1{:+e}", dev);
        }
        if !(jt[m] > 0.0) {
            fail!("j-nonpositive", "subset {m:#b}: J={} not positive in an accepted graph", jt[m]);
        }
    }
    // global: J from omegas only
    let jx = jfun::j_exact(ne, &omega);
    let tol_glob = 64.0 * ne as f64 * eps;
    for m in 0..n {
        let rel = qf(&((&jq[m] - &jx[m]) / &jx[m]).abs());
        ctx.max("global_j_rel_err_over_tol", rel / tol_glob);
        if !(rel <= tol_glob) {
            fail!("j-global", "subset {m:#b}: table J={} but the exact recursion on the table's omegas gives {} (rel {rel:e}) for {g:?}", jt[m], qf(&jx[m]));
        }
    }
    let max_fact = if ctx.replay { 9 } else if std::env::var("VERIF_TIER_THOROUGH").is_ok() { 7 } else { 6 };
    if ne <= max_fact {
        let jo = jfun::j_full_by_orderings(ne, &omega);
        let rel = qf(&((&jq[full] - &jo) / &jo).abs());
        if !(rel <= tol_glob) {
            fail!("j-orderings", "J(full)={} but the sum over all {ne}! orderings gives {} (rel {rel:e}) for {g:?}", jt[full], qf(&jo));
        }
        ctx.label("orderings-sum-checked");
    }
    // cached normalisation
    let dod = g.dod();
    if dod > 1e-6 {
        let ln_want = jt[full].ln() + ln_gamma(dod) - g.weights.iter().map(|&w| ln_gamma(w)).sum::<f64>() + (D * nl) as f64 / 2.0 * std::f64::consts::PI.ln();
        let got = tab.cached_factor;
        if !(got.is_finite() && got > 0.0) {
            let overflow = dod >= 171.0 || g.weights.iter().any(|w| *w >= 171.0);
            let sig = if overflow { "cached-factor-nonfinite:gamma-overflow(weight-or-dod>=171)" } else { "cached-factor-sign" };
            fail!(sig, "cached normalisation {got} is not finite and positive (dod={dod}) for {g:?}");
        }
        let nterms = ne as f64 + 3.0;
        let scale = jt[full].ln().abs() + ln_gamma(dod).abs() + g.weights.iter().map(|&w| ln_gamma(w).abs()).sum::<f64>() + (D * nl) as f64;
        // Gamma is ill-conditioned near 0: the code's own dod (a difference of f64 sums, checked by C03 to the rounding
        // of those sums) may differ from the exact dod by a few ulps of the weights, which Gamma(dod) ~ 1/dod amplifies
        let dyadic_w = g.weights.iter().all(|w| (w * 64.0).fract() == 0.0 && *w < 1024.0);
        let ddod = if dyadic_w { 0.0 } else { 4.0 * (ne as f64 + 2.0) * eps * (g.wsum_abs() + (nl * D) as f64 / 2.0 + 1.0) };
        let psi_bound = 1.0 / dod + dod.ln().abs() + 1.0;
        let tol = 1e-12 * nterms + 8.0 * eps * scale + psi_bound * ddod;
        let dev = (got.ln() - ln_want).abs();
        ctx.max("cached_factor_ln_err_over_tol", dev / tol);
        if !(dev <= tol) {
            fail!("cached-factor", "cached normalisation {got:e} but J(full)*Gamma(dod)/prod Gamma(w)*pi^(DL/2) = {:e} (ln diff {dev:e} > {tol:e}) dod={dod} for {g:?}", ln_want.exp());
        }
        ctx.label("cached-factor-checked");
    } else {
        ctx.label("dod<=0:cached-factor-not-defined");
    }
    let unequal = g.weights.iter().any(|w| *w != g.weights[0]);
    let massive = g.massive.iter().any(|&m| m);
    let nonspanning_full = !g.spanning(full);
    if ne >= 3 && (unequal || massive || nonspanning_full) {
        ctx.nontrivial();
    }
    if nonspanning_full {
        ctx.label("full-graph-not-spanning");
    }
    Ok(())
}

pub fn check(g: &G, ctx: &mut Ctx) -> Result<(), Failure> {
    if g.nedges() == 0 || g.nedges() > 13 || !(1..=6).contains(&g.d) {
        fail!("bad-case", "case outside the generator's domain");
    }
    with_d!(g.d, check_d(g, ctx))
}

pub fn gen_family(t: &mut Tape, tier: Tier) -> Option<super::family::Family> {
    super::family::gen_family(t, tier, 7)
}
pub fn check_family(f: &super::family::Family, ctx: &mut Ctx) -> Result<(), Failure> {
    super::family::check_family(f, ctx, &check)
}
#[derive(Clone, Debug, serde::Serialize, serde::Deserialize)]
#[serde(untagged)]
pub enum Any {
    Fam(super::family::Family),
    One(G),
}
pub fn check_any(c: &Any, ctx: &mut Ctx) -> Result<(), Failure> {
    match c {
        Any::Fam(f) => check_family(f, ctx),
        Any::One(g) => check(g, ctx),
    }
}
pub fn run(tier: Tier, seed: u64) -> i32 {
    let t0 = Instant::now();
    if tier == Tier::Thorough {
        std::env::set_var("VERIF_TIER_THOROUGH", "1");
    }
    let sp = Spec { id: "C04", rule: RULE, tape_len: 200, cases: tier.pick(20_000, 200_000), gen: gen_case, check, max_shrink_iters: 300, shards: 16 };
    let mut stats = engine::run_spec(&sp, tier, seed);
    let spf = Spec { id: "C04", rule: RULE, tape_len: 220, cases: tier.pick(6_000, 60_000), gen: gen_family, check: check_family, max_shrink_iters: 300, shards: 16 };
    stats.merge(engine::run_spec(&spf, tier, seed ^ 0xfa4));
    engine::run_regressions::<Any>("C04", check_any, &mut stats);
    engine::finish("C04", tier, seed, RULE, stats, t0, serde_json::json!({}), &["exact rational arithmetic on the table's f64 omegas", "own ln Gamma (Stirling), |rel err| < 1e-14"])
}
pub fn replay(path: &str) -> i32 {
    engine::replay_file::<Any>("C04", path, check_any)
}
