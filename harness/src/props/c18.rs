//! C18 — a serialised sampler restores to one that samples identically.
use super::phys;
use crate::engine::{self, Ctx, Failure, Spec, Tape, Tier};
use crate::fail;
use crate::gen::{self, Phys, PhysOpts};
use crate::sut::{self, BuildErr, Out, SutErr};
use crate::with_d;
use momtrop::SampleGenerator;
use serde::{Deserialize, Serialize};
use std::time::Instant;

pub const RULE: &str = "(three wire formats: serde_json text, serde_json value tree, and a positional non-self-describing format written for this harness in the manner of bincode: fields in declaration order without names) cases = accepted connected graphs (E<=8, L<=5, D=1..6; decimal and dyadic weights so that J, omega and the normalisation have full 53-bit mantissas) with a scrambled routing and 12 generated x-space points (structured classes incl. corners). two self-describing formats: JSON text (serde_json, float_roundtrip) and an in-memory serde value tree holding f64 exactly. oracle: the restored sampler re-serialises byte-identically, reports the same dimension / dod / edge count / weights, and returns bit-identical results (loop momenta, u, v, jacobian, metadata incl. L matrix, lambda, q, or the same error) on every point. non-trivial = E>=3 and (a massive edge or L>=2); distinct = distinct case encodings";

#[derive(Clone, Debug, Serialize, Deserialize)]
pub struct Case {
    pub p: Phys,
    pub points: Vec<Vec<f64>>,
    /// entries appended to signature rows (row index >= 1) before the sampler is built: the signature is not validated
    /// by build_sampler and sampling reads only the first L entries of a row, so a ragged signature samples like the
    /// rectangular one - and must keep doing so after a round trip
    #[serde(default)]
    pub ragged: Vec<(usize, Vec<isize>)>,
}

/// a graph with 16 or 17 loops (flower of massive self-loops, optionally with a bridge to a second vertex):
/// loop numbers beyond 15 appear in the table
fn gen_many_loops(t: &mut Tape) -> Option<Case> {
    let l = t.range(16, 17);
    let d = t.range(1, 2);
    let mut edges: Vec<(u8, u8)> = vec![(0, 0); l];
    let mut massive = vec![true; l];
    let mut externals = vec![];
    if t.bool() {
        edges.push((0, 1));
        massive.push(true);
        externals = vec![0, 1];
    }
    let ne = edges.len();
    let weights: Vec<f64> = (0..ne).map(|_| ((d as f64 / 2.0 + t.uniform(0.1, 1.0)) * 64.0).round() / 64.0).collect();
    let g = crate::oracle::graph::G { edges, massive, weights, externals, d };
    let mut sig = vec![vec![0isize; l]; ne];
    for i in 0..l {
        sig[i][i] = 1;
    }
    let kin = gen::Kin { sig, shifts: (0..ne).map(|e| if e == l { vec![0.7; d] } else { vec![0.0; d] }).collect(), masses: (0..ne).map(|_| t.uniform(0.3, 2.0)).collect(), inflow: if ne > l { vec![(0, vec![0.7; d]), (1, vec![-0.7; d])] } else { vec![] } };
    let dim = gen::dimension(&g);
    let point = |t: &mut Tape| -> Vec<f64> { (0..dim).map(|_| t.unit().max(gen::TWO_M53)).collect() };
    let x = point(t);
    let points = (0..3).map(|_| point(t)).collect();
    Some(Case { p: Phys { g, kin, x, classes: vec!["graph:16+loops".into()] }, points, ragged: vec![] })
}

pub fn gen_case(t: &mut Tape, tier: Tier) -> Option<Case> {
    if t.chance(tier.pick(0.0004, 0.0002)) {
        return gen_many_loops(t);
    }
    let mo = if t.chance(0.3) { 1.0 / 64.0 } else { 0.15 };
    let opts = PhysOpts { max_e: tier.pick(8, 9), max_l: 8, min_omega: mo, dmax: 6, max_ops: 3, profile: gen::SECTOR };
    let p = if t.chance(0.1) { gen::gen_phys_union(t, &opts)? } else { gen::gen_phys(t, &opts)? };
    let points = (0..12).map(|i| gen::gen_point(t, &p.g, if i % 3 == 0 { &gen::CORNERS } else { &gen::MODERATE }).0).collect();
    let mut ragged = vec![];
    if !t.chance(0.92) && p.g.nedges() >= 2 {
        for _ in 0..t.range(1, 2) {
            let e = t.range(1, p.g.nedges() - 1);
            let extra: Vec<isize> = (0..t.range(1, 2)).map(|_| t.range(0, 2) as isize - 1).collect();
            ragged.push((e, extra));
        }
    }
    Some(Case { p, points, ragged })
}

pub fn full_bits(r: &Result<Out, SutErr>) -> Vec<u64> {
    match r {
        Ok(o) => {
            let mut b = o.bits();
            if let Some(m) = &o.meta {
                b.push(m.lambda.to_bits());
                b.push(m.dec.det.to_bits());
                for v in m.l.iter().chain(m.dec.inv.iter()).chain(m.dec.qt.iter()).chain(m.dec.qti.iter()).chain(m.q.iter()).chain(m.uvec.iter()).chain(m.shift.iter()) {
                    b.extend(v.iter().map(|x| x.to_bits()));
                }
            }
            b
        }
        Err(SutErr::ZeroDet) => vec![0xE001],
        Err(SutErr::Unstable) => vec![0xE002],
        Err(SutErr::Gamma) => vec![0xE003],
        Err(SutErr::Panic(_)) => vec![0xE004],
    }
}

fn compare<const D: usize>(a: &SampleGenerator<D>, b: &SampleGenerator<D>, c: &Case, how: &str) -> Result<(), Failure> {
    let g = &c.p.g;
    if a.get_dimension() != b.get_dimension() || a.get_dod().to_bits() != b.get_dod().to_bits() || a.get_num_edges() != b.get_num_edges() || a.get_smallest_dod().to_bits() != b.get_smallest_dod().to_bits() {
        fail!(format!("{how}:reported-quantities"), "{how}: restored sampler reports dimension {} dod {} edges {} (original {} {} {})", b.get_dimension(), b.get_dod(), b.get_num_edges(), a.get_dimension(), a.get_dod(), a.get_num_edges());
    }
    // the whole table through a channel that is independent of serde: the derived Debug text prints every f64 exactly
    let (da, db) = (format!("{a:?}"), format!("{b:?}"));
    if da != db {
        let pos = da.bytes().zip(db.bytes()).position(|(x, y)| x != y).unwrap_or(0);
        let lo = pos.saturating_sub(60);
        fail!(format!("{how}:table-differs"), "{how}: Debug text of the restored sampler differs from the original near …{}… vs …{}…", &da[lo..(pos + 40).min(da.len())], &db[lo..(pos + 40).min(db.len())]);
    }
    let (wa, wb): (Vec<u64>, Vec<u64>) = (a.iter_edge_weights().map(f64::to_bits).collect(), b.iter_edge_weights().map(f64::to_bits).collect());
    if wa != wb {
        fail!(format!("{how}:weights"), "{how}: edge weights differ after the round trip");
    }
    for (i, x) in std::iter::once(&c.p.x).chain(c.points.iter()).enumerate() {
        for (stab, meta) in [(None, true), (Some(1e-6), false)] {
            let ed = || sut::edge_data::<D>(&g.massive, &c.p.kin.masses, &c.p.kin.shifts);
            let ra = sut::sample_f64(a, x, ed(), stab, false, meta);
            let rb = sut::sample_f64(b, x, ed(), stab, false, meta);
            if let Err(SutErr::Panic(m)) = &rb {
                if !matches!(ra, Err(SutErr::Panic(_))) {
                    fail!(format!("{how}:restored-panics"), "{how}: restored sampler panicked ({m}) where the original did not; point {i}");
                }
            }
            if full_bits(&ra) != full_bits(&rb) {
                fail!(format!("{how}:sample-differs"), "{how}: point {i} ({x:?}) gives different results after the round trip: original {ra:?} restored {rb:?}; case graph {:?}", c.p.g);
            }
        }
    }
    // "samples identically" is not a statement about f64 only: the first point once more with a double-double scalar
    {
        use crate::scalars::dd::DD;
        use momtrop::vector::Vector;
        let run = |s: &SampleGenerator<D>| -> Vec<u64> {
            let x: Vec<DD> = c.p.x.iter().map(|&v| DD::f(v)).collect();
            let ed: Vec<(Option<DD>, Vector<DD, D>)> = (0..g.nedges()).map(|e| (if g.massive[e] { Some(DD::f(c.p.kin.masses[e])) } else { None }, Vector::from_array(std::array::from_fn(|i| DD::f(c.p.kin.shifts[e][i]))))).collect();
            let st = sut::settings(None, false, false);
            match std::panic::catch_unwind(std::panic::AssertUnwindSafe(|| s.generate_sample_from_x_space_point(&x, ed, &st, &sut::NoLog))) {
                Ok(Ok(r)) => {
                    let mut b = vec![r.u.hi.to_bits(), r.u.lo.to_bits(), r.v.hi.to_bits(), r.v.lo.to_bits(), r.jacobian.hi.to_bits(), r.jacobian.lo.to_bits()];
                    for k in &r.loop_momenta {
                        for i in 0..D {
                            b.push(k[i].hi.to_bits());
                            b.push(k[i].lo.to_bits());
                        }
                    }
                    b
                }
                Ok(Err(e)) => vec![0xE000, format!("{e:?}").len() as u64],
                Err(_) => {
                    let _ = engine::take_panic();
                    vec![0xE004]
                }
            }
        };
        let (ba, bb) = (run(a), run(b));
        if ba != bb {
            fail!(format!("{how}:sample-differs-user-scalar"), "{how}: sampled with a double-double user scalar, the restored sampler gives different numbers than the original at the case's first point; case graph {:?}", c.p.g);
        }
    }
    Ok(())
}

fn check_d<const D: usize>(c: &Case, ctx: &mut Ctx) -> Result<(), Failure> {
    let g = &c.p.g;
    let mut sig = c.p.kin.sig.clone();
    for (e, extra) in &c.ragged {
        if *e >= 1 && *e < sig.len() {
            sig[*e].extend_from_slice(extra);
            ctx.label("signature:ragged");
        }
    }
    let s = match sut::build::<D>(g, sig) {
        Ok(s) => s,
        Err(BuildErr::Rejected(_)) | Err(BuildErr::Panic(_)) => {
            ctx.label("skip:not-built");
            return Ok(());
        }
    };
    // format 1: JSON text
    let txt = match serde_json::to_string(&s) {
        Ok(t) => t,
        Err(e) => fail!("serialise-failed", "serde_json::to_string failed: {e}"),
    };
    if txt.contains("null") {
        ctx.label("excluded:non-finite-float-in-table");
        return Ok(());
    }
    let s1: SampleGenerator<D> = match serde_json::from_str(&txt) {
        Ok(s) => s,
        Err(e) => fail!("json:deserialise-failed", "cannot deserialise the sampler's own JSON: {e}"),
    };
    let txt1 = serde_json::to_string(&s1).unwrap_or_default();
    if txt1 != txt {
        fail!("json:reserialisation-differs", "JSON of the restored sampler differs from the original JSON");
    }
    compare::<D>(&s, &s1, c, "json")?;
    // format 2: in-memory self-describing value tree
    let val = match serde_json::to_value(&s) {
        Ok(v) => v,
        Err(e) => fail!("serialise-failed", "to_value failed: {e}"),
    };
    let s2: SampleGenerator<D> = match serde_json::from_value(val.clone()) {
        Ok(s) => s,
        Err(e) => fail!("value:deserialise-failed", "cannot deserialise from the value tree: {e}"),
    };
    if serde_json::to_value(&s2).ok() != Some(val) {
        fail!("value:reserialisation-differs", "value tree of the restored sampler differs");
    }
    compare::<D>(&s, &s2, c, "value")?;
    // format 3: positional binary-style format (fields in declaration order, no names, nothing self-describing)
    {
        use crate::oracle::posfmt;
        let toks = match posfmt::to_tokens(&s) {
            Ok(t) => t,
            Err(e) => fail!("positional:serialise-failed", "a positional (bincode-like) serialiser cannot write the sampler: {e}"),
        };
        let s4: SampleGenerator<D> = match posfmt::from_tokens(&toks) {
            Ok(s) => s,
            Err(e) => fail!("positional:deserialise-failed", "the sampler written in a positional (bincode-like) format, {} tokens, cannot be read back: {e}", toks.len()),
        };
        if posfmt::to_tokens(&s4).ok().as_ref() != Some(&toks) {
            fail!("positional:reserialisation-differs", "positional encoding of the restored sampler differs from the original encoding");
        }
        compare::<D>(&s, &s4, c, "positional")?;
    }
    // a restored sampler can be restored again (idempotence)
    let s3: SampleGenerator<D> = serde_json::from_str(&txt1).map_err(|e| Failure::new("json:second-generation", format!("{e}")))?;
    compare::<D>(&s, &s3, c, "json2")?;
    ctx.count("points_compared", 3 * (c.points.len() as u64 + 1) * 2);
    if g.nedges() >= 3 && (g.massive.iter().any(|&m| m) || g.num_loops() >= 2) {
        ctx.nontrivial();
    }
    Ok(())
}
pub fn check(c: &Case, ctx: &mut Ctx) -> Result<(), Failure> {
    phys::validate_opt(&c.p, true)?;
    let dim = gen::dimension(&c.p.g);
    if c.points.iter().any(|x| x.len() < dim || x.iter().any(|v| !(v.is_finite() && *v >= 0.0 && *v < 1.0))) {
        fail!("bad-case", "extra points outside [0,1)^dim");
    }
    with_d!(c.p.g.d, check_d(c, ctx))
}
pub fn run(tier: Tier, seed: u64) -> i32 {
    let t0 = Instant::now();
    let sp = Spec { id: "C18", rule: RULE, tape_len: 900, cases: tier.pick(40_000, 400_000), gen: gen_case, check, max_shrink_iters: 60, shards: 16 };
    let mut stats = engine::run_spec(&sp, tier, seed);
    engine::run_regressions::<Case>("C18", check, &mut stats);
    engine::finish("C18", tier, seed, RULE, stats, t0, serde_json::json!({}), &["serde_json (text with float_roundtrip, and its Value tree) as the two self-describing formats that preserve f64 exactly", "identical sampling is established on 13 generated points per sampler, not on all points"])
}
pub fn replay(path: &str) -> i32 {
    engine::replay_file::<Case>("C18", path, check)
}
