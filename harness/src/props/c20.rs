//! C20 — Vector and f64 scalar primitives implement their componentwise definitions.
use crate::engine::{self, Ctx, Failure, Spec, Tape, Tier};
use crate::fail;
use crate::gen;
use momtrop::float::MomTropFloat;
use momtrop::vector::Vector;
use serde::{Deserialize, Serialize};
use std::time::Instant;

pub const RULE: &str = "cases = dimension D=1..8, two vectors and a scalar whose components are drawn from all finite f64 (uniform bit patterns, +-0, subnormals, 1e+-300, small integers, ordinary reals), an isize (small, +-2^53 neighbourhood, extremes) and a scalar argument for the f64 trait functions (general classes, every magnitude on a log scale, |x| in [690,760] where exp leaves the normal range, +-32 ulps around 0, 1, pi/2, pi, 2pi, 1e22 and the under/overflow thresholds of exp). oracle: plain-array IEEE reference compared by bit pattern (NaN == NaN): +, -, *T, *&T, +=, a chain of eight operations (+=, -, *s, IndexMut) on one vector object, dot (left fold from index 0 starting at +0), squared == dot(v,v), dot symmetry, from_array/from_vec/from_slice/get_elements/Index/IndexMut/new/new_from_num/zero/len; f64 as MomTropFloat: inv == 1/x, from_isize exact up to 2^53 (checked through an i128 round trip) and correctly rounded beyond, PI/zero/one/abs/sqrt/ln/exp/sin/cos/powf/to_f64/from_f64 against std. non-trivial = D not in {2,3} or a component that is non-integer or of magnitude outside [1e-3,1e3]; distinct = distinct case encodings";

#[derive(Clone, Debug, Serialize, Deserialize)]
pub struct Case {
    pub d: usize,
    /// bit patterns (so that -0.0 and subnormals survive JSON)
    pub a: Vec<u64>,
    pub b: Vec<u64>,
    pub s: u64,
    pub k: i64,
    pub y: u64,
}

fn gen_f(t: &mut Tape) -> f64 {
    match t.weighted(&[0.35, 0.25, 0.1, 0.1, 0.1, 0.1]) {
        0 => t.uniform(-10.0, 10.0),
        1 => {
            let mut v = f64::from_bits(t.next());
            if !v.is_finite() {
                v = f64::from_bits(v.to_bits() & 0x3FFF_FFFF_FFFF_FFFF);
            }
            v
        }
        2 => *t.pick(&[0.0, -0.0, 5e-324, -5e-324, 2.2250738585072014e-308, 1e-310]),
        3 => *t.pick(&[1e300, -1e300, 1e-300, 1.7976931348623157e308, -1.7976931348623157e308, 1e154, 1e155]),
        4 => t.range(0, 20) as f64 - 10.0,
        _ => *t.pick(&[0.5, 1.0, -1.0, 2.0, 3.0, 1e-3, 1e3, 0.1, std::f64::consts::PI, 1.0 / 3.0]),
    }
}
pub fn gen_case(t: &mut Tape, _tier: Tier) -> Option<Case> {
    let d = t.range(1, 8);
    let a: Vec<u64> = (0..d).map(|_| gen_f(t).to_bits()).collect();
    let mut b: Vec<u64> = (0..d).map(|_| gen_f(t).to_bits()).collect();
    // near-equal operands: b_i a few ulps away from a_i (cancellation, Sterbenz region), or equal
    let a_: &Vec<u64> = &a;
    for i in 0..d {
        if t.chance(0.12) {
            let off = t.range(0, 8) as i64 - 4;
            let bits = a_[i] as i64;
            let cand = f64::from_bits((bits + off) as u64);
            if cand.is_finite() {
                b[i] = cand.to_bits();
            }
        }
    }
    let s = gen_f(t).to_bits();
    let k = match t.below(5) {
        0 => t.range(0, 2000) as i64 - 1000,
        1 => (1i64 << 53) + t.range(0, 8) as i64 - 4,
        2 => -(1i64 << 53) + t.range(0, 8) as i64 - 4,
        3 => *t.pick(&[i64::MAX, i64::MIN, i64::MAX - 1, (1 << 62) + 1, (1 << 54) + 2, (1 << 54) + 6, 0]),
        _ => t.next() as i64,
    };
    // argument of the f64 trait functions: besides the general classes, every magnitude on a log scale and the
    // regions where the elementary functions change regime (results subnormal, under/overflowing, arguments next to
    // 0, 1, multiples of pi/2, huge arguments of sin/cos)
    let y = match t.weighted(&[0.55, 0.15, 0.15, 0.15]) {
        0 => gen_f(t),
        1 => {
            let m = 10f64.powf(t.uniform(-323.0, 308.0));
            if t.bool() { m } else { -m }
        }
        2 => {
            // exp leaves the normal range between |x| = 690 and 760 (subnormal results from -708.4, zero from -745.13,
            // infinity from 709.78)
            let m = t.uniform(690.0, 760.0);
            if t.bool() { m } else { -m }
        }
        _ => {
            let c = *t.pick(&[0.0, 1.0, -1.0, std::f64::consts::FRAC_PI_2, std::f64::consts::PI, 2.0 * std::f64::consts::PI, 0.5, 2.0, 1e22, 709.782712893384, -708.3964185322641, -744.4400719213812, -745.1332191019412]);
            let r = gen::ulp_step(f64::abs(c), t.range(0, 64) as i64 - 32);
            if c < 0.0 { -r } else { r }
        }
    }
    .to_bits();
    Some(Case { d, a, b, s, k, y })
}

fn same(a: f64, b: f64) -> bool {
    a.to_bits() == b.to_bits() || (a.is_nan() && b.is_nan())
}
macro_rules! eqb {
    ($sig:expr, $got:expr, $want:expr, $($arg:tt)*) => {
        let (g_, w_): (f64, f64) = ($got, $want);
        if !same(g_, w_) {
            return Err(Failure::new($sig, format!("{}: got {:e} ({:#x}) expected {:e} ({:#x})", format!($($arg)*), g_, g_.to_bits(), w_, w_.to_bits())));
        }
    };
}

fn check_d<const D: usize>(c: &Case, ctx: &mut Ctx) -> Result<(), Failure> {
    let a: [f64; D] = std::array::from_fn(|i| f64::from_bits(c.a[i]));
    let b: [f64; D] = std::array::from_fn(|i| f64::from_bits(c.b[i]));
    let s = f64::from_bits(c.s);
    let va = Vector::<f64, D>::from_array(a);
    let vb = Vector::<f64, D>::from_array(b);
    // constructors / accessors
    let v2 = Vector::<f64, D>::from_vec(a.to_vec());
    let v3 = Vector::<f64, D>::from_slice(&a);
    let els = va.get_elements();
    if va.len() != D {
        fail!("len", "len() = {} for D = {D}", va.len());
    }
    for i in 0..D {
        eqb!("from_array/index", va[i], a[i], "from_array(..)[{i}]");
        eqb!("from_vec", v2[i], a[i], "from_vec(..)[{i}]");
        eqb!("from_slice", v3[i], a[i], "from_slice(..)[{i}]");
        eqb!("get_elements", els[i], a[i], "get_elements()[{i}]");
    }
    let z = va.new();
    let z2 = Vector::<f64, D>::new_from_num(&s);
    for i in 0..D {
        eqb!("new", z[i], 0.0, "new()[{i}]");
        eqb!("new_from_num", z2[i], 0.0, "new_from_num()[{i}]");
    }
    eqb!("vector-zero", va.zero(), 0.0, "Vector::zero()");
    let mut vm = va;
    for i in 0..D {
        vm[i] = b[D - 1 - i];
    }
    for i in 0..D {
        eqb!("index_mut", vm[i], b[D - 1 - i], "IndexMut write then read [{i}]");
    }
    {
        let mut sq_r = 0.0f64;
        for i in 0..D {
            sq_r = sq_r + b[D - 1 - i] * b[D - 1 - i];
        }
        eqb!("index_mut", vm.squared(), sq_r, "squared() of a vector built by from_array and then overwritten through IndexMut");
        eqb!("index_mut", vm.dot(&vm), sq_r, "dot(v,v) of a vector built by from_array and then overwritten through IndexMut");
    }
    // arithmetic
    let sum = &va + &vb;
    let dif = &va - &vb;
    let sc1 = &va * s;
    let sc2 = &va * &s;
    let mut acc = va;
    acc += vb;
    for i in 0..D {
        eqb!("add", sum[i], a[i] + b[i], "(a+b)[{i}] a={:e} b={:e}", a[i], b[i]);
        eqb!("sub", dif[i], a[i] - b[i], "(a-b)[{i}] a={:e} b={:e}", a[i], b[i]);
        eqb!("mul-scalar", sc1[i], a[i] * s, "(a*s)[{i}] a={:e} s={s:e}", a[i]);
        eqb!("mul-scalar-ref", sc2[i], a[i] * s, "(a*&s)[{i}] a={:e} s={s:e}", a[i]);
        eqb!("add-assign", acc[i], a[i] + b[i], "(a+=b)[{i}]");
    }
    // operation HISTORIES on one vector object: a value of the type carries nothing but its components, so a chain of
    // += / + / - / * / IndexMut on the same object must follow the componentwise IEEE chain bit for bit
    {
        let mut v = va;
        let mut r = a;
        let steps = [0u8, 1, 0, 2, 0, 3, 1, 0];
        for (k, st) in steps.iter().enumerate() {
            match st {
                0 => {
                    v += if k % 4 == 0 { vb } else { &vb * s };
                    for i in 0..D {
                        r[i] = r[i] + if k % 4 == 0 { b[i] } else { b[i] * s };
                    }
                }
                1 => {
                    v = &v - &va;
                    for i in 0..D {
                        r[i] = r[i] - a[i];
                    }
                }
                2 => {
                    v = &v * s;
                    for i in 0..D {
                        r[i] = r[i] * s;
                    }
                }
                _ => {
                    v[0] = b[0];
                    r[0] = b[0];
                }
            }
            for i in 0..D {
                eqb!("operation-history", v[i], r[i], "component {i} after step {k} of the chain += , -, +=, *s, +=, [0]=, -, += on one vector (a={a:?}, b={b:?}, s={s:e})");
            }
            // the derived quantities follow the current components, whatever was done to the object before
            let (mut sq_r, mut dot_r) = (0.0f64, 0.0f64);
            for i in 0..D {
                sq_r = sq_r + r[i] * r[i];
                dot_r = dot_r + r[i] * b[i];
            }
            eqb!("operation-history", v.squared(), sq_r, "squared() after step {k} of the chain (a={a:?}, b={b:?}, s={s:e})");
            eqb!("operation-history", v.dot(&vb), dot_r, "dot(.,b) after step {k} of the chain (a={a:?}, b={b:?}, s={s:e})");
        }
        // and a copy taken in the middle of a chain behaves like a fresh vector with the same components
        let mut w = va;
        w += vb;
        let mut w2 = w;
        w2 += vb;
        let fresh = {
            let mut f = Vector::<f64, D>::from_array(std::array::from_fn(|i| a[i] + b[i]));
            f += vb;
            f
        };
        for i in 0..D {
            eqb!("operation-history", w2[i], fresh[i], "copy of a vector after one += then += again, vs a fresh vector with the same components, [{i}]");
        }
    }
    let mut dot = 0.0f64;
    let mut sq = 0.0f64;
    for i in 0..D {
        dot = dot + a[i] * b[i];
        sq = sq + a[i] * a[i];
    }
    eqb!("dot", va.dot(&vb), dot, "dot(a,b) with a={a:?} b={b:?}");
    eqb!("dot-symmetry", vb.dot(&va), va.dot(&vb), "dot(b,a) vs dot(a,b)");
    eqb!("squared", va.squared(), sq, "squared(a) a={a:?}");
    eqb!("squared-vs-dot", va.squared(), va.dot(&va), "squared(a) vs dot(a,a)");
    // scalar trait on f64
    let y = f64::from_bits(c.y);
    type F = f64;
    eqb!("inv", <F as MomTropFloat>::inv(&y), 1.0 / y, "inv({y:e})");
    eqb!("PI", <F as MomTropFloat>::PI(&y), std::f64::consts::PI, "PI()");
    eqb!("zero", <F as MomTropFloat>::zero(&y), 0.0, "zero()");
    eqb!("one", <F as MomTropFloat>::one(&y), 1.0, "one()");
    eqb!("abs", <F as MomTropFloat>::abs(&y), f64::abs(y), "abs({y:e})");
    eqb!("sqrt", <F as MomTropFloat>::sqrt(&y), f64::sqrt(y), "sqrt({y:e})");
    eqb!("ln", <F as MomTropFloat>::ln(&y), f64::ln(y), "ln({y:e})");
    eqb!("exp", <F as MomTropFloat>::exp(&y), f64::exp(y), "exp({y:e})");
    eqb!("sin", <F as MomTropFloat>::sin(&y), f64::sin(y), "sin({y:e})");
    eqb!("cos", <F as MomTropFloat>::cos(&y), f64::cos(y), "cos({y:e})");
    eqb!("powf", <F as MomTropFloat>::powf(&y, &s), f64::powf(y, s), "powf({y:e},{s:e})");
    eqb!("to_f64", <F as MomTropFloat>::to_f64(&y), y, "to_f64({y:e})");
    eqb!("from_f64", <F as MomTropFloat>::from_f64(&s, y), y, "from_f64({y:e})");
    // from_isize
    let k = c.k as isize;
    let f = <F as MomTropFloat>::from_isize(&y, k);
    let kv = k as i128;
    if !f.is_finite() || f.fract() != 0.0 {
        fail!("from_isize", "from_isize({k}) = {f:e} is not an integer-valued finite float");
    }
    let fi = f as i128; // exact: |f| <= 2^63
    if kv.unsigned_abs() <= 1u128 << 53 {
        if fi != kv {
            fail!("from_isize", "from_isize({k}) = {f:e} is not exact");
        }
    } else {
        let exp = 127 - kv.unsigned_abs().leading_zeros() as i32; // floor(log2 |k|)
        let ulp: i128 = 1i128 << (exp - 52);
        let err = (fi - kv).abs();
        if err * 2 > ulp {
            fail!("from_isize", "from_isize({k}) = {f:e}: error {err} exceeds half an ulp ({ulp})");
        }
        if err * 2 == ulp && (f.to_bits() & 1) == 1 {
            fail!("from_isize", "from_isize({k}) = {f:e}: tie not rounded to even");
        }
    }
    let odd = a.iter().chain(b.iter()).any(|x| x.fract() != 0.0 || (x.abs() > 1e3 || (x.abs() < 1e-3 && *x != 0.0)));
    if ![2, 3].contains(&D) || odd {
        ctx.nontrivial();
    }
    ctx.label(format!("D={D}"));
    Ok(())
}

pub fn check(c: &Case, ctx: &mut Ctx) -> Result<(), Failure> {
    if !(1..=8).contains(&c.d) || c.a.len() != c.d || c.b.len() != c.d || c.a.iter().chain(c.b.iter()).chain([c.s, c.y].iter()).any(|&x| !f64::from_bits(x).is_finite()) {
        fail!("bad-case", "outside D=1..8 / finite components");
    }
    match c.d {
        1 => check_d::<1>(c, ctx),
        2 => check_d::<2>(c, ctx),
        3 => check_d::<3>(c, ctx),
        4 => check_d::<4>(c, ctx),
        5 => check_d::<5>(c, ctx),
        6 => check_d::<6>(c, ctx),
        7 => check_d::<7>(c, ctx),
        _ => check_d::<8>(c, ctx),
    }
}
pub fn run(tier: Tier, seed: u64) -> i32 {
    let t0 = Instant::now();
    let sp = Spec { id: "C20", rule: RULE, tape_len: 48, cases: tier.pick(4_000_000, 80_000_000), gen: gen_case, check, max_shrink_iters: 4000, shards: 16 };
    let mut stats = engine::run_spec(&sp, tier, seed);
    engine::run_regressions::<Case>("C20", check, &mut stats);
    engine::finish("C20", tier, seed, RULE, stats, t0, serde_json::json!({}), &["IEEE-754 arithmetic of the host as reference for single operations (the property is about which operations are composed, in which order)"])
}
pub fn replay(path: &str) -> i32 {
    engine::replay_file::<Case>("C20", path, check)
}
