use crate::engine::Tier;
pub mod c03;
pub mod c04;
pub mod c05;
pub mod c01;
pub mod c02;
pub mod c06;
pub mod c07;
pub mod c08;
pub mod c09;
pub mod c10;
pub mod c11;
pub mod c12;
pub mod c13;
pub mod c14;
pub mod c15;
pub mod c16;
pub mod c17;
pub mod c18;
pub mod c19;
pub mod c20;
pub mod family;
pub mod fuzzrun;
pub mod phys;
pub mod xproc;

macro_rules! registry {
    ($($id:literal => $m:ident),* $(,)?) => {
        pub fn run(id: &str, tier: Tier, seed: u64) -> i32 {
            match id {
                $($id => $m::run(tier, seed),)*
                _ => { crate::engine::say(&format!("unknown property id {id}")); 2 }
            }
        }
        pub fn replay(id: &str, path: &str) -> i32 {
            match id {
                $($id => $m::replay(path),)*
                _ => { crate::engine::say(&format!("unknown property id {id}")); 2 }
            }
        }
        pub const IDS: &[&str] = &[$($id),*];
    };
}
registry! {
    "C01" => c01,
    "C02" => c02,
    "C03" => c03,
    "C04" => c04,
    "C05" => c05,
    "C06" => c06,
    "C07" => c07,
    "C08" => c08,
    "C09" => c09,
    "C10" => c10,
    "C11" => c11,
    "C12" => c12,
    "C13" => c13,
    "C14" => c14,
    "C15" => c15,
    "C16" => c16,
    "C17" => c17,
    "C18" => c18,
    "C19" => c19,
    "C20" => c20,
}
