use crate::engine::Tier;
pub mod c03;

macro_rules! registry {
    ($($id:literal => $m:ident),* $(,)?) => {
        pub fn run(id: &str, tier: Tier, seed: u64) -> i32 {
            match id {
                $($id => $m::run(tier, seed),)*
                _ => { crate::engine::say(&format!("unknown property id {id}")); 2 }
            }
        }
        pub fn replay(id: &str, path: &str) -> i32 {
            match id {
                $($id => $m::replay(path),)*
                _ => { crate::engine::say(&format!("unknown property id {id}")); 2 }
            }
        }
        pub const IDS: &[&str] = &[$($id),*];
    };
}
registry! {
    "C03" => c03,
}
