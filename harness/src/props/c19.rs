//! C19 — user precision is preserved: only the Gamma draw narrows to f64.
use super::c09;
use super::c14::run_tracked;
use super::phys::{self, EPS};
use crate::engine::{self, take_panic, Ctx, Failure, Spec, Tape, Tier};
use crate::fail;
use crate::gen::{self, Phys};
use crate::oracle::graph::{qf, Q};
use crate::oracle::lin::{self, QMat};
use crate::oracle::sym::Sym;
use crate::scalars::dd::DD;
use crate::scalars::tracked;
use crate::sut::{self, BuildErr, NoLog, SutErr};
use crate::with_d;
use momtrop::float::MomTropFloat;
use momtrop::vector::Vector;
use momtrop::{SampleGenerator, TropicalSampleResult};
use num::{One, Signed, Zero};
use std::panic::{catch_unwind, AssertUnwindSafe};
use std::time::Instant;

pub const RULE: &str = "decider 1 (taint): the C14 scalar type logs every to_f64 call with its dependency set; with debug output off every narrowed value may depend on nothing but the gamma coordinate 2E-2 (never on another coordinate, never on user masses/shifts) and every value widened back from f64 with dependencies is the gamma variate. decider 2 (precision gain): a double-double scalar (~106 bits) is pushed through the sampler on well-conditioned points and the outputs are checked with exact rational arithmetic at 1e-26*kappa instead of the 1e-13*kappa reachable in f64: u vs det(l_matrix), inverse*L-I, q_transposed*(k+shift) - sqrt(v/2lambda) q, shift vs L^-1 u_vectors, and agreement of u, v, jacobian between two routings of one point; lambda is the documented exception (its low word is 0); the L matrix against the sector formula evaluated in double-double; ill-conditioned points by the precision gain over the f64 run; decider 4: decompose_for_tropical itself on double-double copies of the C15 matrix classes (incl. weakly joined blocks) against exact rational inverse/determinant at 1e-26*cond. decider 6: every Gaussian component of the double-double run against the Box-Muller formula evaluated in double-double with the type's own PI, also at points only a wide scalar can express (angle coordinates k/4 +- 2^-(56..105), radii with a low word). decider 5 (edge choice at the user's precision): one edge-choice coordinate is a double-double number at relative distance 1e-20..1e-27 above or below an exact cumulative boundary formed from the table's own f64 constants; the L matrix must follow the sector formula along the exact walk. non-trivial = L>=2 (samples), n>=3 (matrices) or E>=3 (edge choice); distinct = distinct case encodings";

pub fn gen_case(t: &mut Tape, tier: Tier) -> Option<c09::Case> {
    let g = gen::gen_phys_graph(t, tier.pick(7, 8), 5, 0.3, 6)?;
    let (free, masses) = gen::gen_kin_data_unit(t, &g);
    // exactly representable kinematics: the two routings must be equivalent to all 106 bits
    let free: Vec<Vec<f64>> = free.iter().map(|p| p.iter().map(|&v| gen::grid16(v)).collect()).collect();
    let kin = gen::gen_routing_exact(t, &g, &free, &masses, 3);
    let kin2 = gen::gen_routing_exact(t, &g, &free, &masses, 3);
    let prof = gen::PointProfile { u_w: [0.5, 0.5, 0.0, 0.0], xi_w: [0.0, 0.1, 0.7, 0.2], lambda_tail: 0.0, bm_extreme: 0.15 };
    let (x, classes) = gen::gen_point(t, &g, &prof);
    Some(c09::Case { a: Phys { g, kin, x, classes: classes.into_iter().map(String::from).collect() }, kin2 })
}

// ------------------------------------------------------------------ decider 1
fn taint_d<const D: usize>(s: &SampleGenerator<D>, p: &Phys, ctx: &mut Ctx) -> Result<(), Failure> {
    let ne = p.g.nedges();
    let lam_bit = 1u128 << (2 * ne - 2);
    for stab in [None, Some(1e300)] {
        let run = run_tracked::<D>(s, p, p.x.len(), &[], stab);
        match &run.res {
            Err(SutErr::Panic(m)) => fail!("sample-panic", "sampling panicked: {m}; case {p:?}"),
            Err(_) => {
                ctx.label("taint:skip-sample-error");
                continue;
            }
            Ok(_) => {}
        }
        for (d, v) in &run.narrow {
            if d & !lam_bit != 0 {
                fail!("narrowing-outside-gamma-draw", "a value depending on {:?} (value {v:e}) was narrowed to f64 (only coordinate {} may be); stability test {stab:?}; case {p:?}", tracked::bits_to_vec(*d), 2 * ne - 2);
            }
        }
        for (d, v) in &run.widen {
            if *d != lam_bit {
                fail!("widening-with-foreign-deps", "from_f64({v:e}) re-entered the computation carrying dependencies {:?}", tracked::bits_to_vec(*d));
            }
        }
        ctx.count("narrowing_calls_inspected", run.narrow.len() as u64);
    }
    Ok(())
}

// ------------------------------------------------------------------ decider 2
fn dd_sample<const D: usize>(s: &SampleGenerator<D>, p: &Phys) -> Result<TropicalSampleResult<DD, D>, SutErr> {
    let g = &p.g;
    let x: Vec<DD> = p.x.iter().map(|&v| DD::f(v)).collect();
    let ed: Vec<(Option<DD>, Vector<DD, D>)> = (0..g.nedges()).map(|e| (if g.massive[e] { Some(DD::f(p.kin.masses[e])) } else { None }, Vector::from_array(std::array::from_fn(|i| DD::f(p.kin.shifts[e][i]))))).collect();
    let st = sut::settings(None, false, true);
    match catch_unwind(AssertUnwindSafe(|| s.generate_sample_from_x_space_point(&x, ed, &st, &NoLog))) {
        Ok(Ok(r)) => Ok(r),
        Ok(Err(e)) => Err(sut::classify(&format!("{e:?}"))),
        Err(_) => Err(SutErr::Panic(take_panic())),
    }
}
fn qmat<const N: usize>(_: [(); N]) {}
fn mat_q(m: &momtrop::matrix::SquareMatrix<DD>) -> QMat {
    let n = m.get_dim();
    (0..n).map(|i| (0..n).map(|j| m[(i, j)].q()).collect()).collect()
}
fn relq(a: &Q, b: &Q) -> f64 {
    if b.is_zero() {
        return qf(&a.abs());
    }
    qf(&((a - b) / b).abs())
}
pub const DD_TOL: f64 = 1e-26;

struct DdEval {
    u: Q,
    v: Q,
    jac: Q,
    kappa: f64,
    cv: f64,
}
fn dd_d<const D: usize>(s: &SampleGenerator<D>, p: &Phys, ctx: &mut Ctx) -> Result<Option<DdEval>, Failure> {
    let _ = qmat::<0>;
    let g = &p.g;
    let (ne, nl) = (g.nedges(), g.num_loops());
    let r = match dd_sample::<D>(s, p) {
        Ok(r) => r,
        Err(SutErr::Panic(m)) => fail!("sample-panic", "sampling with the double-double scalar panicked: {m}; case {p:?}"),
        Err(_) => {
            ctx.label("dd:skip-sample-error");
            return Ok(None);
        }
    };
    let Some(md) = r.metadata.as_ref() else { fail!("no-metadata", "no metadata") };
    let finite = r.u.is_finite() && r.v.is_finite() && r.jacobian.is_finite() && r.loop_momenta.iter().all(|k| (0..D).all(|i| k[i].is_finite()));
    if !finite {
        ctx.label("dd:skip-nonfinite");
        return Ok(None);
    }
    if md.lambda.lo != 0.0 {
        fail!("lambda-not-f64", "lambda = {:?} has a non-zero low word although the gamma draw is documented to be f64", md.lambda);
    }
    // decider 6: the Gaussian components against the Box-Muller formula evaluated by the oracle in double-double
    // (2 pi formed from the type's own PI): an f64 constant or an f64 detour in one branch leaves ~1e-16
    {
        let base = 2 * ne - 1;
        if md.q_vectors.len() != nl {
            fail!("q-shape", "double-double run: {} Gaussian vectors for {nl} loops", md.q_vectors.len());
        }
        for l in 0..nl {
            for i in 0..D {
                let n = l * D + i;
                let jp = n / 2;
                let (a, b) = (p.x[base + 2 * jp], p.x[base + 2 * jp + 1]);
                if !(a > 1e-300 && a < 1.0) {
                    continue;
                }
                let r_ = (DD::f(-2.0) * DD::f(a).ln()).sqrt();
                let th = DD::f(2.0) * DD::PI * DD::f(b);
                let want = if n % 2 == 0 { r_ * th.cos() } else { r_ * th.sin() };
                let err = qf(&(md.q_vectors[l][i].q() - want.q()).abs());
                // conditioning: the angle (up to 2 pi) and the radius enter linearly; the logarithm near a = 1 cancels
                let cond = 1.0 + 1.0 / (a.ln().abs()).max(1e-300);
                let t_ = 1e-27 * (r_.hi.abs() * (1.0 + th.hi.abs()) + want.hi.abs()) * cond.min(1e12);
                ctx.max("dd_box_muller_over_tol", if t_ > 0.0 { err / t_ } else { 0.0 });
                if !(err <= t_.max(1e-300)) {
                    fail!("dd-box-muller-precision", "double-double run: Gaussian component {n} (q[{l}][{i}]) differs from the Box-Muller formula evaluated in double-double by {err:e} > {t_:e}: part of it was computed with f64 constants or f64 arithmetic; case {p:?}");
                }
            }
        }
    }
    let lq = mat_q(&md.l_matrix);
    // decider 3: the L matrix against the sector formula evaluated by the oracle in double-double arithmetic
    // (exponents 1/omega formed in the user's type from the table's f64 omegas, as the property demands)
    {
        let tab = sut::table_of(s).map_err(|e| Failure::new("table-unreadable", e))?;
        let reft = g.table_f64();
        let omega_ref: Vec<f64> = reft.iter().map(|e| e.2).collect();
        let jr = g.j_f64(&omega_ref);
        let path = crate::oracle::path::simulate(ne, &omega_ref, &jr, &p.x, 64.0 * EPS);
        let one = DD::f(1.0);
        let mut kappa = one;
        let mut x0 = vec![one; ne];
        let (mut ut, mut vt) = (one, one);
        let mut sub = g.full();
        for (step, &e) in path.order.iter().enumerate() {
            x0[e] = kappa;
            let nxt = sub ^ (1 << e);
            if tab.entries[sub].spanning && !tab.entries[nxt].spanning {
                vt = x0[e];
            }
            if tab.entries[nxt].loops < tab.entries[sub].loops {
                ut = ut * x0[e];
            }
            sub = nxt;
            if sub != 0 {
                let xi = DD::f(p.x[2 * step + 1]);
                kappa = kappa * xi.powf(&DD::f(tab.entries[sub].omega).inv());
            }
        }
        let dh = D as f64 / 2.0;
        let xit = ut * vt;
        let target = ut.powf(&DD::f(-dh)) * (ut / xit).powf(&DD::f(tab.dod));
        let scaling = target.powf(&DD::f(dh * nl as f64 + tab.dod).inv());
        let xs: Vec<DD> = x0.iter().map(|x| *x * scaling).collect();
        let amp = 1.0 + path.sens_rel.iter().cloned().fold(0.0, f64::max) + target.hi.ln().abs();
        for i in 0..nl {
            for j in 0..nl {
                let mut want = Q::zero();
                let mut absum = 0.0;
                for e in 0..ne {
                    let c = (p.kin.sig[e][i] * p.kin.sig[e][j]) as f64;
                    want += xs[e].q() * crate::oracle::graph::q(c);
                    absum += (xs[e].hi * c).abs();
                }
                let err = qf(&(&lq[i][j] - &want).abs());
                let t_ = 1e-24 * amp * absum;
                ctx.max("dd_sector_formula_over_tol", if t_ > 0.0 { err / t_ } else { 0.0 });
                if !(err <= t_) {
                    fail!("dd-sector-precision", "double-double run: L[{i}][{j}] differs from the sector formula evaluated in double-double arithmetic by {err:e} > {t_:e} (relative {:e}): some factor of the Feynman parameters was computed in f64; case {p:?}", err / absum.max(1e-300));
                }
            }
        }
    }
    let Some((detq, invq)) = lin::det_inv(&lq) else {
        ctx.label("dd:skip-singular");
        return Ok(None);
    };
    // conditioning from the f64 view of the parameters: reuse |L| with the signature
    let labs: QMat = {
        // |L|_ij <= sum_e x_e |s_ei s_ej| ; x_e is not exposed at DD precision, bound it by the diagonal
        (0..nl).map(|i| (0..nl).map(|j| if i == j { lq[i][i].clone() } else { (lq[i][i].clone() + lq[j][j].clone()) / Q::from_integer(2.into()) }).collect()).collect()
    };
    let kappa = lin::fro(&labs) * lin::fro(&invq);
    if !(kappa <= 1e8) {
        // widely spread parameters: a condition-scaled absolute tolerance is meaningless here, but the property
        // ("correspondingly more precise") still is: compare the residuals of the double-double run with the
        // residuals of the plain f64 run of the same case, computed exactly. The wider type must gain >= 8 digits.
        ctx.label("dd:ill-conditioned(precision-gain comparison)");
        let ed = sut::edge_data::<D>(&g.massive, &p.kin.masses, &p.kin.shifts);
        let Ok(f) = sut::sample_f64(s, &p.x, ed, None, false, true) else { return Ok(None) };
        let Some(fm) = f.meta.as_ref() else { return Ok(None) };
        let (Some(lf), Some(invf)) = (lin::from_f64(&fm.l), lin::from_f64(&fm.dec.inv)) else { return Ok(None) };
        let res_f = lin::fro(&lin::sub(&lin::matmul(&invf, &lf), &lin::identity(nl)));
        let inv = mat_q(&md.decompoisiton_result.inverse);
        let res_d = lin::fro(&lin::sub(&lin::matmul(&inv, &lq), &lin::identity(nl)));
        if res_f.is_finite() && res_f < 1e-3 {
            let t_ = (1e-8 * res_f).max(1e-29 * nl as f64);
            ctx.max("dd_gain_inverse_residual_over_tol", res_d / t_);
            if !(res_d <= t_) {
                fail!("dd-precision-gain-inverse", "ill-conditioned point (kappa {kappa:e}): |inverse*L - I|_F is {res_f:e} in f64 and {res_d:e} with the double-double scalar - the wider type gains fewer than 8 digits; case {p:?}");
            }
        }
        // same for the triangular factor inverse: q_transposed_inverse * q_transposed
        let (Some(qtf), Some(qtif)) = (lin::from_f64(&fm.dec.qt), lin::from_f64(&fm.dec.qti)) else { return Ok(None) };
        let rq_f = lin::fro(&lin::sub(&lin::matmul(&qtif, &qtf), &lin::identity(nl)));
        let qtd = mat_q(&md.decompoisiton_result.q_transposed);
        let qtid = mat_q(&md.decompoisiton_result.q_transposed_inverse);
        let rq_d = lin::fro(&lin::sub(&lin::matmul(&qtid, &qtd), &lin::identity(nl)));
        if rq_f.is_finite() && rq_f < 1e-3 {
            let t_ = (1e-8 * rq_f).max(1e-29 * nl as f64);
            ctx.max("dd_gain_factor_inverse_residual_over_tol", rq_d / t_);
            if !(rq_d <= t_) {
                fail!("dd-precision-gain-factor", "ill-conditioned point (kappa {kappa:e}): |R^-1 R - I|_F is {rq_f:e} in f64 and {rq_d:e} with the double-double scalar - the wider type gains fewer than 8 digits; case {p:?}");
            }
        }
        return Ok(None);
    }
    let tol = DD_TOL * kappa;
    // u vs exact determinant of the returned L
    let ru = relq(&r.u.q(), &detq);
    ctx.max("dd_u_vs_det_over_tol", ru / tol);
    if !(ru <= tol) {
        fail!("dd-u-precision", "double-double run: u differs from the exact determinant of the returned l_matrix by {ru:e} > {tol:e} (an f64 detour leaves ~1e-16); case {p:?}");
    }
    // inverse * L - I
    let inv = mat_q(&md.decompoisiton_result.inverse);
    let res = lin::sub(&lin::matmul(&inv, &lq), &lin::identity(nl));
    let ri = lin::fro(&res);
    ctx.max("dd_inverse_residual_over_tol", ri / (tol * nl as f64));
    if !(ri <= tol * nl as f64) {
        fail!("dd-inverse-precision", "double-double run: |inverse*L - I|_F = {ri:e} > {:e}; case {p:?}", tol * nl as f64);
    }
    // factor
    let qt = mat_q(&md.decompoisiton_result.q_transposed);
    let rf = lin::fro(&lin::sub(&lin::matmul(&lin::transpose(&qt), &qt), &lq)) / lin::fro(&lq);
    if !(rf <= tol * nl as f64) {
        fail!("dd-factor-precision", "double-double run: |R^T R - L|_F/|L|_F = {rf:e} > {:e}; case {p:?}", tol * nl as f64);
    }
    // shift vs L^-1 u_vectors
    let inv_fro = lin::fro(&invq);
    for i in 0..D {
        let ucol: Vec<Q> = (0..nl).map(|l| md.u_vectors[l][i].q()).collect();
        let unorm = lin::norm2(&ucol.iter().map(qf).collect::<Vec<_>>());
        for l in 0..nl {
            let want = (0..nl).fold(Q::zero(), |a, lp| a + &invq[l][lp] * &ucol[lp]);
            let err = qf(&(md.shift[l][i].q() - &want).abs());
            let t_ = tol * inv_fro * unorm;
            if !(err <= t_.max(1e-300)) {
                fail!("dd-shift-precision", "double-double run: shift[{l}][{i}] off by {err:e} > {t_:e}; case {p:?}");
            }
        }
    }
    // momentum map: qt (k + shift) = sqrt(v / 2 lambda) q
    let pref = (r.v / md.lambda / DD::f(2.0)).sqrt();
    for i in 0..D {
        let scol: f64 = inv_fro * lin::norm2(&(0..nl).map(|l| qf(&md.u_vectors[l][i].q())).collect::<Vec<_>>());
        for l in 0..nl {
            let mut acc = Q::zero();
            let mut scale = 0.0;
            for lp in 0..nl {
                let ks = r.loop_momenta[lp][i].q() + md.shift[lp][i].q();
                scale += qf(&qt[l][lp].abs()) * (qf(&r.loop_momenta[lp][i].q().abs()) + qf(&md.shift[lp][i].q().abs()) + scol);
                acc += &qt[l][lp] * ks;
            }
            let want = (pref * md.q_vectors[l][i]).q();
            let err = qf(&(&acc - &want).abs());
            let t_ = tol * (scale + qf(&want.abs())) * 8.0;
            ctx.max("dd_momentum_map_over_tol", if t_ > 0.0 { err / t_ } else { 0.0 });
            if !(err <= t_.max(1e-300)) {
                fail!("dd-momentum-precision", "double-double run: [q_transposed (k+shift)][{l}][{i}] off by {err:e} > {t_:e}; case {p:?}");
            }
        }
    }
    // c_V from f64 quantities (only used to scale the two-routing comparison of v)
    let a_term: f64 = {
        // sum_e x_e (m^2+p^2) is not observable at DD precision; bound c_V through |u_vec|^2 L^-1 + v
        let mut b = 0.0;
        for i in 0..D {
            for l in 0..nl {
                for lp in 0..nl {
                    b += (qf(&md.u_vectors[l][i].q()) * qf(&invq[l][lp]) * qf(&md.u_vectors[lp][i].q())).abs();
                }
            }
        }
        b
    };
    let vf = qf(&r.v.q());
    let cv = ((vf + 2.0 * a_term) / vf).max(1.0);
    let _ = (ne, Q::one());
    Ok(Some(DdEval { u: r.u.q(), v: r.v.q(), jac: r.jacobian.q(), kappa, cv }))
}

/// decider 6b: Box-Muller coordinates that only a wide scalar can express: angles at k/4 +- 2^-(56..105) (the component
/// next to an axis is then 1e-16..1e-31, far below f64 resolution but well inside the type's) and radii with a low word
fn dd_bm_special<const D: usize>(s: &SampleGenerator<D>, p: &Phys, ctx: &mut Ctx) -> Result<(), Failure> {
    let g = &p.g;
    let (ne, nl) = (g.nedges(), g.num_loops());
    let base = 2 * ne - 1;
    let npairs = (nl * D + 1) / 2;
    let mut x: Vec<DD> = p.x.iter().map(|&v| DD::f(v)).collect();
    let h0 = p.x.iter().fold(23u64, |a, v| a.wrapping_mul(1_000_003).wrapping_add(v.to_bits()));
    for jp in 0..npairs {
        let h = h0.wrapping_mul(6364136223846793005).wrapping_add(jp as u64 * 1442695040888963407) >> 7;
        let k4 = (h % 4) as f64 * 0.25;
        let e = 56 + ((h >> 8) % 50) as i32;
        let mut delta = 2f64.powi(-e);
        if (h >> 20) & 1 == 1 && k4 > 0.0 {
            delta = -delta;
        }
        x[base + 2 * jp + 1] = if k4 == 0.0 { DD::f(delta) } else { DD::new(k4, delta) };
        let a = p.x[base + 2 * jp];
        if a > 1e-300 && a < 0.5 {
            x[base + 2 * jp] = DD::new(a, a * 2f64.powi(-60));
        }
    }
    let ed: Vec<(Option<DD>, Vector<DD, D>)> = (0..ne).map(|e| (if g.massive[e] { Some(DD::f(p.kin.masses[e])) } else { None }, Vector::from_array(std::array::from_fn(|i| DD::f(p.kin.shifts[e][i]))))).collect();
    let st = sut::settings(None, false, true);
    let r = match catch_unwind(AssertUnwindSafe(|| s.generate_sample_from_x_space_point(&x, ed, &st, &NoLog))) {
        Ok(Ok(r)) => r,
        Ok(Err(_)) => {
            ctx.label("dd-bm-special:sample-error");
            return Ok(());
        }
        Err(_) => fail!("sample-panic", "sampling with the double-double scalar panicked: {}; case {p:?}", take_panic()),
    };
    let Some(md) = r.metadata.as_ref() else { fail!("no-metadata", "no metadata") };
    if md.q_vectors.len() != nl {
        fail!("q-shape", "double-double run: {} Gaussian vectors for {nl} loops", md.q_vectors.len());
    }
    for l in 0..nl {
        for i in 0..D {
            let n = l * D + i;
            let jp = n / 2;
            let (a, b) = (x[base + 2 * jp], x[base + 2 * jp + 1]);
            if !(a.hi > 1e-300 && a.hi < 1.0) {
                continue;
            }
            let r_ = (DD::f(-2.0) * a.ln()).sqrt();
            let th = DD::f(2.0) * DD::PI * b;
            let want = if n % 2 == 0 { r_ * th.cos() } else { r_ * th.sin() };
            let err = qf(&(md.q_vectors[l][i].q() - want.q()).abs());
            let cond = 1.0 + 1.0 / (a.hi.ln().abs()).max(1e-300);
            let t_ = 1e-27 * (r_.hi.abs() * (1.0 + th.hi.abs()) + want.hi.abs()) * cond.min(1e12);
            if !(err <= t_.max(1e-300)) {
                fail!("dd-box-muller-precision", "double-double run with the angle coordinate of pair {jp} at {:e} + {:e}: Gaussian component {n} is {:e} + {:e} but the Box-Muller formula in double-double gives {:e} + {:e} (difference {err:e} > {t_:e}): a value below f64 resolution was lost; case {p:?}", b.hi, b.lo, md.q_vectors[l][i].hi, md.q_vectors[l][i].lo, want.hi, want.lo);
            }
        }
    }
    ctx.label("dd-bm-special:checked");
    Ok(())
}

fn check_d<const D: usize>(c: &c09::Case, ctx: &mut Ctx) -> Result<(), Failure> {
    let p = &c.a;
    phys::classes_label(p, ctx);
    let b = Phys { g: p.g.clone(), kin: c.kin2.clone(), x: p.x.clone(), classes: vec![] };
    let build = |p: &Phys| sut::build::<D>(&p.g, p.kin.sig.clone());
    let (s1, s2) = match (build(p), build(&b)) {
        (Ok(a), Ok(b)) => (a, b),
        (Err(BuildErr::Panic(_)), _) | (_, Err(BuildErr::Panic(_))) | (Err(BuildErr::Rejected(_)), _) | (_, Err(BuildErr::Rejected(_))) => {
            ctx.label("skip:not-built");
            return Ok(());
        }
    };
    taint_d::<D>(&s1, p, ctx)?;
    // magnitude guard (tighter than f64's: the low words must stay normal)
    let sym = Sym::new(&p.g, &p.kin.inflow, &p.kin.masses);
    let reft = p.g.table_f64();
    let omega: Vec<f64> = reft.iter().map(|e| e.2).collect();
    let j = p.g.j_f64(&omega);
    let path = crate::oracle::path::simulate(p.g.nedges(), &omega, &j, &p.x, 64.0 * EPS);
    let spread = path.lnx0.iter().fold(0.0f64, |a, &l| a.max(l.abs()));
    let (in_range, _) = phys::ln_guard(&sym, &path.lnx0, D, p.g.num_loops(), p.g.dod());
    if !in_range || spread > 60.0 || path.min_gap < 1e-9 {
        ctx.label("dd:excluded-by-magnitude-guard");
        return Ok(());
    }
    dd_bm_special::<D>(&s1, p, ctx)?;
    let Some(e1) = dd_d::<D>(&s1, p, ctx)? else { return Ok(()) };
    let Some(e2) = dd_d::<D>(&s2, &b, ctx)? else { return Ok(()) };
    let tu = DD_TOL * (e1.kappa + e2.kappa);
    let tv = DD_TOL * (e1.kappa * e1.cv + e2.kappa * e2.cv);
    let ru = relq(&e1.u, &e2.u);
    if !(ru <= tu) {
        fail!("dd-u-two-routings", "double-double run: u of two routings differs by {ru:e} > {tu:e}; case {c:?}");
    }
    let rv = relq(&e1.v, &e2.v);
    ctx.max("dd_v_two_routings_over_tol", rv / tv);
    if !(rv <= tv) {
        fail!("dd-v-two-routings", "double-double run: v of two routings differs by {rv:e} > {tv:e} (f64 precision would leave ~1e-16*kappa); case {c:?}");
    }
    let rj = relq(&e1.jac, &e2.jac);
    let dod = p.g.dod();
    let tj = (D as f64 / 2.0) * tu + dod.abs() * tv + DD_TOL * 100.0 * (1.0 + qf(&e1.u).ln().abs() * D as f64 + qf(&e1.v).ln().abs() * dod.abs());
    ctx.max("dd_jac_two_routings_over_tol", rj / tj);
    if !(rj <= tj) {
        fail!("dd-jacobian-two-routings", "double-double run: jacobian of two routings differs by {rj:e} > {tj:e}; case {c:?}");
    }
    ctx.label("dd:checked");
    if p.g.num_loops() >= 2 {
        ctx.nontrivial();
    }
    Ok(())
}
pub fn check(c: &c09::Case, ctx: &mut Ctx) -> Result<(), Failure> {
    phys::validate(&c.a)?;
    let b = Phys { g: c.a.g.clone(), kin: c.kin2.clone(), x: c.a.x.clone(), classes: vec![] };
    phys::validate(&b)?;
    with_d!(c.a.g.d, check_d(c, ctx))
}
// ------------------------------------------------------------------ decider 4: the matrix routine in double-double
pub fn gen_matrix(t: &mut Tape, tier: Tier) -> Option<super::c15::Case> {
    super::c15::gen_case(t, tier)
}
pub fn check_matrix(c: &super::c15::Case, ctx: &mut Ctx) -> Result<(), Failure> {
    let a = &c.a;
    let n = a.len();
    if n == 0 || n > 8 || a.iter().any(|r| r.len() != n) || a.iter().flatten().any(|x| !x.is_finite()) {
        fail!("bad-case", "not a finite square matrix");
    }
    let Some((aq, detq, invq, cond)) = super::c15::exact_info(a) else {
        ctx.label("matrix:excluded-not-spd");
        return Ok(());
    };
    let mags = [qf(&detq.abs()), lin::fro(&aq), lin::fro(&invq)];
    if !(cond <= 1e8) || mags.iter().any(|m| !(*m > 1e-100 && *m < 1e100)) || a.iter().flatten().any(|x| *x != 0.0 && f64::abs(*x) < 1e-100) {
        ctx.label("matrix:excluded-cond>1e8-or-magnitude");
        return Ok(());
    }
    ctx.label(format!("matrix:{}", c.class));
    let mut m = momtrop::matrix::SquareMatrix::new_zeros_from_num(&DD::f(0.0), n);
    for i in 0..n {
        for j in 0..n {
            m[(i, j)] = DD::f(a[i][j]);
        }
    }
    let st = sut::settings(None, false, false);
    let dec = match catch_unwind(AssertUnwindSafe(|| m.decompose_for_tropical(&st))) {
        Ok(Ok(d)) => d,
        Ok(Err(e)) => fail!("dd-matrix-rejected", "decompose_for_tropical::<double-double> returned {e:?} for an SPD matrix with cond {cond:e}: {a:?}"),
        Err(_) => fail!("dd-matrix-panic", "decompose_for_tropical::<double-double> panicked: {}", take_panic()),
    };
    let inv = mat_q(&dec.inverse);
    let tol = DD_TOL * cond * n as f64;
    let e_inv = lin::fro(&lin::sub(&inv, &invq)) / lin::fro(&invq);
    ctx.max("dd_matrix_inverse_over_tol", e_inv / tol);
    if !(e_inv <= tol) {
        fail!("dd-matrix-inverse-precision", "double-double matrix routine: |inverse - A^-1|_F/|A^-1|_F = {e_inv:e} > {tol:e} (cond {cond:e}); a 106-bit scalar must give ~1e-31*cond; A = {a:?}");
    }
    let qti = mat_q(&dec.q_transposed_inverse);
    let qt = mat_q(&dec.q_transposed);
    let e_f = lin::fro(&lin::sub(&lin::matmul(&qti, &qt), &lin::identity(n)));
    if !(e_f <= tol) {
        fail!("dd-matrix-factor-precision", "double-double matrix routine: |R^-1 R - I|_F = {e_f:e} > {tol:e}; A = {a:?}");
    }
    let e_d = relq(&dec.determinant.q(), &detq);
    if !(e_d <= tol) {
        fail!("dd-matrix-determinant-precision", "double-double matrix routine: determinant off by {e_d:e} > {tol:e}; A = {a:?}");
    }
    if n >= 3 {
        ctx.nontrivial();
    }
    Ok(())
}

// ------------------------------------------------------------------ decider 5: the edge choice at the user's precision
/// One edge-choice coordinate is placed at a relative distance 1e-20..1e-27 from an exact cumulative boundary of the
/// tropical edge distribution (formed in exact rational arithmetic from the f64 constants of the sampler's own table).
/// A double-double evaluation of the cumulative sums is accurate to ~1e-31, so the comparison must come out on the
/// exact side; any f64 arithmetic on the way (f64 quotients of table constants, an f64 running sum, a narrowed
/// coordinate) moves the boundary by ~1e-17 and flips the choice on one of the two sides. The choice is observed
/// through the returned L matrix, compared with the sector formula evaluated in double-double along the exact walk.
#[derive(Clone, Debug, serde::Serialize, serde::Deserialize)]
pub struct EdgeCase {
    pub p: Phys,
    /// which edge-choice step (mod E-1) is moved to a boundary
    pub step: usize,
    /// which cumulative boundary of that step (mod number of boundaries below 1)
    pub bidx: usize,
    pub above: bool,
    /// -log10 of the relative distance from the boundary
    pub lg: f64,
}
pub fn gen_edge(t: &mut Tape, tier: Tier) -> Option<EdgeCase> {
    let g = gen::gen_phys_graph(t, tier.pick(7, 8), 5, 0.15, 6)?;
    let kin = gen::gen_kin_unit(t, &g, 2);
    let prof = gen::PointProfile { u_w: [0.6, 0.4, 0.0, 0.0], xi_w: [0.0, 0.1, 0.9, 0.0], lambda_tail: 0.0, bm_extreme: 0.0 };
    let (x, classes) = gen::gen_point(t, &g, &prof);
    let step = t.below(g.nedges().max(2) - 1);
    let bidx = t.below(8);
    let above = t.bool();
    let lg = t.uniform(20.0, 27.0);
    Some(EdgeCase { p: Phys { g, kin, x, classes: classes.into_iter().map(String::from).collect() }, step, bidx, above, lg })
}
fn q_to_dd(v: &Q) -> DD {
    let hi = qf(v);
    let lo = qf(&(v - crate::oracle::graph::q(hi)));
    DD::new(hi, lo)
}
fn edge_d<const D: usize>(c: &EdgeCase, ctx: &mut Ctx) -> Result<(), Failure> {
    let p = &c.p;
    let g = &p.g;
    let (ne, nl) = (g.nedges(), g.num_loops());
    if ne < 2 {
        ctx.label("edge:skip-single-edge");
        return Ok(());
    }
    let s = match sut::build::<D>(g, p.kin.sig.clone()) {
        Ok(s) => s,
        Err(_) => {
            ctx.label("skip:not-built");
            return Ok(());
        }
    };
    let tab = sut::table_of(&s).map_err(|e| Failure::new("table-unreadable", e))?;
    let omega: Vec<f64> = tab.entries.iter().map(|e| e.omega).collect();
    let jt: Vec<f64> = tab.entries.iter().map(|e| e.j).collect();
    // (the entry of the full graph carries omega = 0 by definition and is never divided by)
    if omega[..omega.len() - 1].iter().chain(jt.iter()).any(|v| !(v.is_finite() && *v > 0.0)) {
        ctx.label("edge:skip-table-not-positive");
        return Ok(());
    }
    // exact walk with the sampler's own table constants
    let target_step = c.step % (ne - 1);
    let mut xdd: Vec<DD> = p.x.iter().map(|&v| DD::f(v)).collect();
    let mut sub = g.full();
    let mut order = vec![];
    let mut placed = None;
    for step in 0..ne {
        if (sub as u64).count_ones() == 1 {
            order.push(sub.trailing_zeros() as usize);
            break;
        }
        let cp = crate::oracle::path::cum_exact(ne, sub, &omega, &jt);
        let uq: Q = if step == target_step {
            let k = c.bidx % (cp.len() - 1);
            let cq = &cp[k].1;
            let delta = crate::oracle::graph::q(10f64.powf(-c.lg));
            let tgt = if c.above { cq * (Q::one() + &delta) } else { cq * (Q::one() - &delta) };
            let u = q_to_dd(&tgt);
            let uq = u.q();
            let dist = qf(&((&uq - cq) / cq).abs());
            let dl = 10f64.powf(-c.lg);
            if !(u.hi > 0.0 && u.hi < 1.0) || !(dist >= 0.5 * dl && dist <= 2.0 * dl) || (uq > *cq) != c.above {
                ctx.label("edge:skip-boundary-not-representable");
                return Ok(());
            }
            xdd[2 * step] = u;
            placed = Some((k, dist));
            uq
        } else {
            let uq = crate::oracle::graph::q(p.x[2 * step]);
            let gap = cp.iter().map(|(_, cq)| qf(&(cq - &uq).abs())).fold(f64::INFINITY, f64::min);
            if gap < 1e-9 {
                ctx.label("edge:skip-other-step-ambiguous");
                return Ok(());
            }
            uq
        };
        let e = cp.iter().find(|(_, cq)| *cq >= uq).map(|(e, _)| *e).unwrap_or(cp.last().unwrap().0);
        order.push(e);
        sub ^= 1 << e;
    }
    let Some((k, dist)) = placed else {
        ctx.label("edge:skip-step-not-reached");
        return Ok(());
    };
    // sector formula in double-double along the exact walk
    let one = DD::f(1.0);
    let mut kappa = one;
    let mut x0 = vec![one; ne];
    let (mut ut, mut vt) = (one, one);
    let mut sub = g.full();
    let mut sens = 0.0f64;
    let mut lnk = 0.0f64;
    let mut spread = 0.0f64;
    for (step, &e) in order.iter().enumerate() {
        x0[e] = kappa;
        spread = spread.max(lnk.abs());
        let nxt = sub ^ (1 << e);
        if tab.entries[sub].spanning && !tab.entries[nxt].spanning {
            vt = x0[e];
        }
        if tab.entries[nxt].loops < tab.entries[sub].loops {
            ut = ut * x0[e];
        }
        sub = nxt;
        if sub != 0 {
            let xi = p.x[2 * step + 1];
            kappa = kappa * DD::f(xi).powf(&DD::f(omega[sub]).inv());
            sens += xi.ln().abs() / omega[sub];
            lnk += xi.ln() / omega[sub];
        }
    }
    if spread > 40.0 || !kappa.is_finite() {
        ctx.label("edge:skip-spread");
        return Ok(());
    }
    let dh = D as f64 / 2.0;
    let xit = ut * vt;
    let target = ut.powf(&DD::f(-dh)) * (ut / xit).powf(&DD::f(tab.dod));
    let scaling = target.powf(&DD::f(dh * nl as f64 + tab.dod).inv());
    let xs: Vec<DD> = x0.iter().map(|x| *x * scaling).collect();
    if !xs.iter().all(|x| x.is_finite() && x.hi > 1e-100 && x.hi < 1e100) {
        ctx.label("edge:skip-magnitude");
        return Ok(());
    }
    let amp = 1.0 + sens + target.hi.ln().abs();
    // run the sampler
    let ed: Vec<(Option<DD>, Vector<DD, D>)> = (0..ne).map(|e| (if g.massive[e] { Some(DD::f(p.kin.masses[e])) } else { None }, Vector::from_array(std::array::from_fn(|i| DD::f(p.kin.shifts[e][i]))))).collect();
    let st = sut::settings(None, false, true);
    let r = match catch_unwind(AssertUnwindSafe(|| s.generate_sample_from_x_space_point(&xdd, ed, &st, &NoLog))) {
        Ok(Ok(r)) => r,
        Ok(Err(_)) => {
            ctx.label("edge:skip-sample-error");
            return Ok(());
        }
        Err(_) => fail!("sample-panic", "sampling with the double-double scalar panicked: {}; case {c:?}", take_panic()),
    };
    let Some(md) = r.metadata.as_ref() else { fail!("no-metadata", "no metadata") };
    let lq = mat_q(&md.l_matrix);
    for i in 0..nl {
        for j in 0..nl {
            let mut want = Q::zero();
            let mut absum = 0.0;
            for e in 0..ne {
                let cf = (p.kin.sig[e][i] * p.kin.sig[e][j]) as f64;
                want += xs[e].q() * crate::oracle::graph::q(cf);
                absum += (xs[e].hi * cf).abs();
            }
            let err = qf(&(&lq[i][j] - &want).abs());
            let t_ = 1e-24 * amp * absum;
            if !(err <= t_) {
                fail!("dd-edge-choice-precision", "double-double run with edge-choice coordinate {} at relative distance {dist:e} ({}) from the exact cumulative boundary {k} of step {target_step}: L[{i}][{j}] differs from the sector formula along the exact walk {order:?} by {err:e} > {t_:e} - the edge was chosen with less than the user's precision; case {c:?}", 2 * target_step, if c.above { "above" } else { "below" });
            }
        }
    }
    ctx.label(if c.above { "edge:checked-above-boundary" } else { "edge:checked-below-boundary" });
    ctx.label(format!("edge:distance-1e-{}", c.lg.floor() as i64));
    if ne >= 3 {
        ctx.nontrivial();
    }
    Ok(())
}
pub fn check_edge(c: &EdgeCase, ctx: &mut Ctx) -> Result<(), Failure> {
    phys::validate(&c.p)?;
    if !(c.lg >= 18.0 && c.lg <= 28.0) {
        fail!("bad-case", "distance exponent outside [18,28]");
    }
    with_d!(c.p.g.d, edge_d(c, ctx))
}

#[derive(Clone, Debug, serde::Serialize, serde::Deserialize)]
#[serde(untagged)]
pub enum Any {
    Sample(c09::Case),
    Edge(EdgeCase),
    Matrix(super::c15::Case),
}
pub fn check_any(c: &Any, ctx: &mut Ctx) -> Result<(), Failure> {
    match c {
        Any::Sample(s) => check(s, ctx),
        Any::Edge(e) => check_edge(e, ctx),
        Any::Matrix(m) => check_matrix(m, ctx),
    }
}

pub fn run(tier: Tier, seed: u64) -> i32 {
    let t0 = Instant::now();
    let sp = Spec { id: "C19", rule: RULE, tape_len: 320, cases: tier.pick(20_000, 200_000), gen: gen_case, check, max_shrink_iters: 1500, shards: 16 };
    let mut stats = engine::run_spec(&sp, tier, seed);
    let sp2 = Spec { id: "C19", rule: RULE, tape_len: 260, cases: tier.pick(20_000, 300_000), gen: gen_matrix, check: check_matrix, max_shrink_iters: 1500, shards: 16 };
    stats.merge(engine::run_spec(&sp2, tier, seed ^ 0x1919));
    let sp3 = Spec { id: "C19", rule: RULE, tape_len: 320, cases: tier.pick(20_000, 200_000), gen: gen_edge, check: check_edge, max_shrink_iters: 1500, shards: 16 };
    stats.merge(engine::run_spec(&sp3, tier, seed ^ 0x1920));
    engine::run_regressions::<Any>("C19", check_any, &mut stats);
    engine::finish("C19", tier, seed, RULE, stats, t0, serde_json::json!({}), &["the double-double scalar is accurate to ~1e-31 relative for + - * / sqrt exp ln sin cos (validated against exact rational Taylor sums at design time)", "tolerance 1e-26*kappa: five orders above the measured double-double error, ten orders below an f64 detour"])
}
pub fn replay(path: &str) -> i32 {
    engine::replay_file::<Any>("C19", path, check_any)
}
