//! C11 — jacobian = normalisation * U^(-D/2) V^(-dod) in the rescaled gauge; invariant under the rescaling.
use super::phys::{self, rel, Eval, EPS};
use crate::engine::{self, Ctx, Failure, Spec, Tape, Tier};
use crate::fail;
use crate::gen::{self, Phys, PhysOpts};
use crate::oracle::gamma::ln_gamma;
use crate::with_d;
use std::time::Instant;

pub const RULE: &str = "cases = accepted connected graphs (G-phys, D=1..6 so that D/2 is integer and half-integer, non-integer dod), scrambled routing, structured x-space points. oracle: u_trop == 1 == v_trop exactly; jacobian against cached_factor*u^(-D/2)*v^(-dod) on the returned fields (pow rounding only) and against I_tr*Gamma(dod)/prod Gamma(nu)*pi^(DL/2)*(U_tr/U)^(D/2)*(V_tr/V)^dod evaluated independently (own J recursion, own Gamma, brute-force Symanzik and tropical polynomials) at the UNRESCALED logged parameters. non-trivial = in-range well-conditioned point, L>=2, dod not an integer; distinct = distinct case encodings";

pub fn gen_case(t: &mut Tape, tier: Tier) -> Option<Phys> {
    let mo = if t.chance(0.3) { 1.0 / 64.0 } else { 0.15 };
    gen::gen_phys(t, &PhysOpts { max_e: tier.pick(8, 9), max_l: 8, min_omega: mo, dmax: 6, max_ops: 3, profile: gen::MODERATE })
}

pub fn assert_c11(c: &Phys, ev: &Eval, ctx: &mut Ctx) -> Result<(), Failure> {
    let d = c.g.d as f64;
    let o = &ev.out;
    if o.u_trop.to_bits() != 1f64.to_bits() || o.v_trop.to_bits() != 1f64.to_bits() {
        fail!("trop-not-one", "returned u_trop={} v_trop={} (must both be exactly 1 in the rescaled gauge)", o.u_trop, o.v_trop);
    }
    if ev.sym.degenerate_momenta {
        // the code's tropical polynomials are topological; they coincide with the largest monomials of the actual F
        // only for generic momenta (no partial sum of external momenta vanishes)
        ctx.label("excluded:non-generic-momenta");
        return Ok(());
    }
    if !ev.in_range {
        ctx.label("excluded:out-of-range");
        return Ok(());
    }
    if ev.tau_v > 1e-3 {
        ctx.label("excluded:ill-conditioned");
        return Ok(());
    }
    let cf = ev.tab.cached_factor;
    // (a) formula on the returned fields
    let want = cf * o.u.powf(-d / 2.0) * o.v.powf(-ev.dod);
    let tol_a = 64.0 * EPS * (1.0 + (d / 2.0) * o.u.ln().abs() + ev.dod.abs() * o.v.ln().abs());
    let ra = rel(o.jac, want);
    ctx.max("jac_vs_returned_fields_over_tol", ra / tol_a);
    if !(ra <= tol_a) {
        fail!("jacobian-vs-fields", "jacobian={:e} but cached_factor*u^(-D/2)*v^(-dod) = {want:e} (rel {ra:e} > {tol_a:e}); u={} v={} dod={} D={d} cached={cf}", o.jac, o.u, o.v, ev.dod);
    }
    // (b) independent evaluation at the unrescaled parameters
    let x0 = &ev.x0;
    let full = (1usize << ev.ne) - 1;
    let ln_itr = ev.j_ref[full].ln();
    let ln_norm = ln_itr + ln_gamma(ev.dod) - c.g.weights.iter().map(|&w| ln_gamma(w)).sum::<f64>() + d * ev.nl as f64 / 2.0 * std::f64::consts::PI.ln();
    let (u0, v0, ut0, vt0) = (ev.sym.u(x0), ev.sym.v(x0), ev.sym.u_trop(x0), ev.sym.v_trop(x0));
    if !(u0 > 0.0 && v0 > 0.0 && ut0 > 0.0 && vt0 > 0.0 && u0.is_finite() && v0.is_finite()) {
        ctx.label("excluded:unrescaled-polynomials-underflow");
        return Ok(());
    }
    let ln_want = ln_norm + d / 2.0 * (ut0 / u0).ln() + ev.dod * (vt0 / v0).ln();
    let tol_b = (d / 2.0) * ev.tau_u + ev.dod.abs() * ev.tau_v + 1e-12 * (ev.ne as f64 + 3.0) + 64.0 * EPS * (ln_norm.abs() + 1.0);
    let rb = (o.jac.ln() - ln_want).abs();
    ctx.max("jac_vs_independent_over_tol", rb / tol_b);
    if !(rb <= tol_b) {
        fail!("jacobian-vs-unrescaled", "ln jacobian = {} but I_tr G(dod)/prod G(nu) pi^(DL/2) (U_tr/U)^(D/2) (V_tr/V)^dod at the unrescaled parameters has ln = {ln_want} (diff {rb:e} > {tol_b:e}) for {c:?}", o.jac.ln());
    }
    if ev.nl >= 2 && ev.dod.fract() != 0.0 {
        ctx.nontrivial();
    }
    ctx.label(if c.g.d % 2 == 0 { "D-even" } else { "D-odd" });
    Ok(())
}

fn check_d<const D: usize>(c: &Phys, ctx: &mut Ctx) -> Result<(), Failure> {
    phys::classes_label(c, ctx);
    let Some(ev) = phys::evaluate::<D>(c, ctx, None)? else { return Ok(()) };
    assert_c11(c, &ev, ctx)
}
pub fn check(c: &Phys, ctx: &mut Ctx) -> Result<(), Failure> {
    phys::validate(c)?;
    with_d!(c.g.d, check_d(c, ctx))
}
pub fn gen_case_large(t: &mut Tape, _tier: Tier) -> Option<Phys> {
    gen::gen_phys_large(t, 3, &gen::MODERATE)
}
pub fn run(tier: Tier, seed: u64) -> i32 {
    let t0 = Instant::now();
    let sp = Spec { id: "C11", rule: RULE, tape_len: 280, cases: tier.pick(100_000, 1_000_000), gen: gen_case, check, max_shrink_iters: 3000, shards: 16 };
    let mut stats = engine::run_spec(&sp, tier, seed);
    // rare class with its own budget: 13/14-edge graphs (2^13 / 2^14 table entries, > 12 edges)
    let spl = Spec { id: "C11", rule: RULE, tape_len: 520, cases: tier.pick(128, 1_600), gen: gen_case_large, check, max_shrink_iters: 40, shards: 16 };
    stats.merge(engine::run_spec(&spl, tier, seed ^ 0x1a26e));
    engine::run_regressions::<Phys>("C11", check, &mut stats);
    engine::finish("C11", tier, seed, RULE, stats, t0, serde_json::json!({}), &["cached_factor read through serde (checked by C04)", "unrescaled parameters read from the crate's debug log (checked by C07)", "own J recursion / ln Gamma / brute-force polynomials as independent evaluation"])
}
pub fn replay(path: &str) -> i32 {
    engine::replay_file::<Phys>("C11", path, check)
}
