//! C03 — the subgraph table holds the true loop number, spanning flag and degree of divergence.
use crate::engine::{self, Ctx, Failure, Spec, Tape, Tier};
use crate::fail;
use crate::gen;
use crate::oracle::graph::{qf, q, G};
use crate::sut::{self, BuildErr};
use crate::with_d;
use num::Signed;
use std::time::Instant;

pub const RULE: &str = "cases = arbitrary multigraphs (1..6 vertices with arbitrary u8 labels, 1..7 edges (thorough 10) incl. self-loops, parallel edges, several components; mass pattern none/random/all; 0..4 externals, 15% arbitrary labels; D=1..6; dyadic k/64 or decimal weights constructed so that the reference accepts ~70%); every one of the 2^E subsets of an accepted graph is compared with a union-find reference. families: a base graph (E<=9), 1..4 copies differing from it in exactly one attribute (externals, one mass flag, one weight by 1..4096 ulps, two weights swapped, the dimension, one vertex label, two edges swapped) and the base graph again, built one after the other on the same thread and each compared with the reference (a table must not depend on what was built before). non-trivial = accepted graph with at least two of {mixed masses, >=2 components, self-loop, externals not equal to the touched vertex set, D!=3}; distinct = distinct graph encodings";

pub fn gen_case(t: &mut Tape, tier: Tier) -> Option<G> {
    Some(gen::gen_any_graph(t, tier))
}

pub fn nontrivial_traits(g: &G) -> usize {
    let mixed = g.massive.iter().any(|&m| m) && g.massive.iter().any(|&m| !m);
    let mut touched: Vec<u8> = g.edges.iter().flat_map(|&(a, b)| [a, b]).collect();
    touched.sort();
    touched.dedup();
    let ncomp = {
        let full = g.full();
        // components = E - V + ... use loops formula: loops = E + C - V
        g.loops(full) + touched.len() - g.nedges()
    };
    let selfloop = g.edges.iter().any(|&(a, b)| a == b);
    let mut ex = g.externals.clone();
    ex.sort();
    ex.dedup();
    let ext_odd = ex != touched;
    [mixed, ncomp >= 2, selfloop, ext_odd, g.d != 3].iter().filter(|&&b| b).count()
}

fn check_d<const D: usize>(g: &G, ctx: &mut Ctx) -> Result<(), Failure> {
    let ne = g.nedges();
    let nl = g.num_loops();
    let s = match sut::build::<D>(g, sut::dummy_sig(ne, nl)) {
        Ok(s) => s,
        Err(BuildErr::Rejected(_)) => {
            ctx.label("build:rejected");
            return Ok(());
        }
        Err(BuildErr::Panic(m)) => {
            // panics of build_sampler are C05's business; the table cannot be inspected
            ctx.label("build:panic");
            let _ = m;
            return Ok(());
        }
    };
    ctx.label("build:accepted");
    let tab = match sut::table_of(&s) {
        Ok(t) => t,
        Err(e) => fail!("table-unreadable", "cannot read table: {e}"),
    };
    let n = 1usize << ne;
    if tab.entries.len() != n {
        fail!("table-size", "table has {} entries, expected 2^{ne}", tab.entries.len());
    }
    let dyadic = g.weights.iter().all(|w| (w * 64.0).fract() == 0.0 && *w < 1024.0);
    ctx.label(if dyadic { "weights:dyadic" } else { "weights:decimal" });
    let scale = g.wsum_abs() + (nl * D) as f64 / 2.0 + 1.0;
    let tol = if dyadic { 0.0 } else { 4.0 * (ne as f64 + 2.0) * f64::EPSILON * scale };
    for m in 0..n {
        let r = g.entry(m);
        let e = &tab.entries[m];
        if e.loops != r.loops as u64 {
            fail!("loop-number", "subset {m:#b}: table loop number {} but cyclomatic number is {} for {g:?}", e.loops, r.loops);
        }
        if e.spanning != r.spanning {
            fail!("spanning-flag", "subset {m:#b}: table mass-momentum-spanning={} but reference says {} for {g:?}", e.spanning, r.spanning);
        }
        if !e.omega.is_finite() {
            fail!("omega-nonfinite", "subset {m:#b}: omega {} not finite", e.omega);
        }
        let diff = qf(&(q(e.omega) - &r.omega).abs());
        if diff > tol {
            fail!("omega", "subset {m:#b}: table omega {} but exact value is {} (diff {diff:e} > tol {tol:e}) for {g:?}", e.omega, qf(&r.omega));
        }
    }
    // reported quantities
    let dl = D * nl;
    let want_dim = 2 * ne - 1 + dl + dl % 2;
    if s.get_dimension() != want_dim {
        fail!("dimension", "get_dimension()={} but 2E-1+DL+(DL mod 2)={want_dim} (E={ne}, L={nl}, D={D})", s.get_dimension());
    }
    let dod_exact = g.dod_q();
    if !(qf(&(q(s.get_dod()) - &dod_exact).abs()) <= tol) {
        fail!("dod", "get_dod()={} but exact overall degree of divergence is {}", s.get_dod(), qf(&dod_exact));
    }
    if s.get_dod().to_bits() != tab.dod.to_bits() {
        fail!("dod-table", "get_dod() {} differs from the serialised table's dod {}", s.get_dod(), tab.dod);
    }
    if s.get_num_edges() != ne {
        fail!("num-edges", "get_num_edges()={} but the graph has {ne}", s.get_num_edges());
    }
    let ws: Vec<f64> = s.iter_edge_weights().collect();
    if ws.len() != ne || ws.iter().zip(&g.weights).any(|(a, b)| a.to_bits() != b.to_bits()) {
        fail!("edge-weights", "iter_edge_weights()={ws:?} but input weights are {:?}", g.weights);
    }
    if tab.num_loops != nl as u64 {
        fail!("num-loops", "table loop count {} but the graph has {nl} loops", tab.num_loops);
    }
    if tab.dimension != D as u64 {
        fail!("table-dimension", "table dimension {} but D={D}", tab.dimension);
    }
    ctx.count("subsets_compared", n as u64);
    if nontrivial_traits(g) >= 2 {
        ctx.nontrivial();
    }
    Ok(())
}

pub fn check(g: &G, ctx: &mut Ctx) -> Result<(), Failure> {
    if g.nedges() == 0 || g.nedges() > 16 || !(1..=6).contains(&g.d) {
        fail!("bad-case", "case outside the generator's domain");
    }
    with_d!(g.d, check_d(g, ctx))
}

pub fn spec(tier: Tier) -> Spec<G> {
    Spec { id: "C03", rule: RULE, tape_len: 160, cases: tier.pick(120_000, 1_200_000), gen: gen_case, check, max_shrink_iters: 4000, shards: 16 }
}

pub fn gen_family(t: &mut Tape, tier: Tier) -> Option<super::family::Family> {
    super::family::gen_family(t, tier, 9)
}
pub fn check_soak(s: &super::family::Soak, ctx: &mut Ctx) -> Result<(), Failure> {
    super::family::check_soak(s, ctx, &check)
}
pub fn check_family(f: &super::family::Family, ctx: &mut Ctx) -> Result<(), Failure> {
    super::family::check_family(f, ctx, &check)
}
#[derive(Clone, Debug, serde::Serialize, serde::Deserialize)]
#[serde(untagged)]
pub enum Any {
    Soak(super::family::Soak),
    Fam(super::family::Family),
    One(G),
}
pub fn check_any(c: &Any, ctx: &mut Ctx) -> Result<(), Failure> {
    match c {
        Any::Soak(s) => check_soak(s, ctx),
        Any::Fam(f) => check_family(f, ctx),
        Any::One(g) => check(g, ctx),
    }
}
pub fn run(tier: Tier, seed: u64) -> i32 {
    let t0 = Instant::now();
    let sp = spec(tier);
    let mut stats = engine::run_spec(&sp, tier, seed);
    let spf = Spec { id: "C03", rule: RULE, tape_len: 220, cases: tier.pick(24_000, 240_000), gen: gen_family, check: check_family, max_shrink_iters: 2000, shards: 16 };
    stats.merge(engine::run_spec(&spf, tier, seed ^ 0xfa3));
    let sps = Spec { id: "C03", rule: RULE, tape_len: 700, cases: tier.pick(32, 96), gen: super::family::gen_soak, check: check_soak, max_shrink_iters: 60, shards: 16 };
    stats.merge(engine::run_spec(&sps, tier, seed ^ 0x50a6));
    engine::run_regressions::<Any>("C03", check_any, &mut stats);
    let extra = super::fuzzrun::maybe_fuzz("C03", "graph_table", tier, seed, &mut stats, serde_json::json!({}));
    engine::finish("C03", tier, seed, RULE, stats, t0, extra, &["union-find reference model and exact rational arithmetic (num::BigRational) are correct", "table read through the sampler's serde serialisation (serde_json)"])
}
pub fn replay(path: &str) -> i32 {
    engine::replay_file::<Any>("C03", path, check_any)
}
