//! C13 — Gaussian vectors are the Box–Muller transform of their designated coordinates.
use super::phys::{self, EPS};
use crate::engine::{self, Ctx, Failure, Spec, Tape, Tier};
use crate::fail;
use crate::gen::{self, Phys, PhysOpts};
use crate::sut::{self, BuildErr, SutErr};
use crate::with_d;
use std::time::Instant;

pub const RULE: &str = "(every case is evaluated with f64 and with a user scalar type that implements only the required trait methods) cases = accepted connected graphs with D=1..6, L=1..5 (so D*L covers odd and even values), points whose Box-Muller coordinates a in (0,1) include 1e-300, 2^-53, 1-2^-53 and b in [0,1) includes 0, 1/8, 1/4, 1/2, 3/4, 1-2^-53. oracle: component n=l*D+i of the metadata q_vectors equals sqrt(-2 ln a_j) cos(2 pi b_j) (n even) or sin (n odd) with j = n div 2 and the pair at coordinates 2E-1+2j, 2E+2j; absolute tolerance 2e-14*r; for odd D*L the last sine is unused. supplementary statistical stage: for 10 (D,L) configurations the sample mean, variance and every pairwise covariance of the D*L Gaussian components over 2e5 (thorough 2e6) uniform points must agree with N(0,1) independent components within 6.5 standard errors. non-trivial = D*L odd or L>=2; distinct = distinct case encodings";

pub fn gen_case(t: &mut Tape, tier: Tier) -> Option<Phys> {
    let opts = PhysOpts { max_e: tier.pick(8, 9), max_l: 8, min_omega: 0.15, dmax: 6, max_ops: 1, profile: gen::PointProfile { u_w: [0.6, 0.4, 0.0, 0.0], xi_w: [0.3, 0.0, 0.58, 0.12], lambda_tail: 0.0, bm_extreme: 0.35 } };
    if t.chance(0.1) {
        gen::gen_phys_union(t, &opts)
    } else {
        gen::gen_phys(t, &opts)
    }
}

fn check_d<const D: usize>(c: &Phys, ctx: &mut Ctx) -> Result<(), Failure> {
    phys::classes_label(c, ctx);
    let (ne, nl) = phys::validate_opt(c, true)?;
    let g = &c.g;
    let s = match sut::build::<D>(g, c.kin.sig.clone()) {
        Ok(s) => s,
        Err(BuildErr::Rejected(_)) | Err(BuildErr::Panic(_)) => {
            ctx.label("skip:not-built");
            return Ok(());
        }
    };
    // every fourth case: a sampler that went through a serde round trip (the statement is about "a sample", however
    // the sampler was obtained)
    let hx = c.x.iter().fold(0u64, |a, v| a.wrapping_mul(31).wrapping_add(v.to_bits()));
    let s = if hx % 4 == 1 {
        ctx.label("sampler:restored-from-json");
        match serde_json::to_string(&s).ok().and_then(|t| serde_json::from_str(&t).ok()) {
            Some(r) => r,
            None => s,
        }
    } else {
        s
    };
    let ed = sut::edge_data::<D>(&g.massive, &c.kin.masses, &c.kin.shifts);
    let out = match sut::sample_f64(&s, &c.x, ed, None, false, true) {
        Ok(o) => o,
        Err(SutErr::Panic(m)) => fail!("sample-panic", "sampling panicked: {m}; case {c:?}"),
        Err(_) => {
            ctx.label("skip:sample-error");
            return Ok(());
        }
    };
    let Some(md) = out.meta else { fail!("no-metadata", "return_metadata=true but no metadata") };
    if md.q.len() != nl || md.q.iter().any(|v| v.len() != D) {
        fail!("q-shape", "q_vectors has shape {:?}, expected {nl} x {D}", md.q.iter().map(|v| v.len()).collect::<Vec<_>>());
    }
    let base = 2 * ne - 1;
    for l in 0..nl {
        for i in 0..D {
            let n = l * D + i;
            let jp = n / 2;
            let a = c.x[base + 2 * jp];
            let b = c.x[base + 2 * jp + 1];
            if !(a > 0.0) {
                fail!("bad-case", "Box-Muller coordinate a must be in (0,1)");
            }
            let r = (-2.0 * a.ln()).sqrt();
            let th = 2.0 * std::f64::consts::PI * b;
            let want = if n % 2 == 0 { r * th.cos() } else { r * th.sin() };
            let tol = 2e-14 * r + 4.0 * EPS * want.abs();
            let err = (md.q[l][i] - want).abs();
            ctx.max("box_muller_err_over_tol", if tol > 0.0 { err / tol } else { 0.0 });
            if !(err <= tol) {
                fail!("box-muller", "q[{l}][{i}] = {:e} but Box-Muller of coordinates ({}, {}) = (a={a:e}, b={b:e}) gives {want:e} (component n={n}, pair {jp}); case {c:?}", md.q[l][i], base + 2 * jp, base + 2 * jp + 1);
            }
        }
    }
    // the same statement for user scalar types that implement only the required methods of MomTropFloat (the
    // dependency-tracking scalar, which computes in f64, and the double-double scalar): cosine first, sine second
    {
        let run = super::c14::run_tracked::<D>(&s, c, c.x.len(), &[], None);
        if let Ok(r) = &run.res {
            let Some(md) = r.metadata.as_ref() else { fail!("no-metadata", "no metadata (user scalar)") };
            if md.q_vectors.len() != nl {
                fail!("q-shape", "user scalar: {} Gaussian vectors for {nl} loops", md.q_vectors.len());
            }
            for l in 0..nl {
                for i in 0..D {
                    let n = l * D + i;
                    let jp = n / 2;
                    let (a, b) = (c.x[base + 2 * jp], c.x[base + 2 * jp + 1]);
                    let r_ = (-2.0 * a.ln()).sqrt();
                    let th = 2.0 * std::f64::consts::PI * b;
                    let want = if n % 2 == 0 { r_ * th.cos() } else { r_ * th.sin() };
                    let tol = 2e-14 * r_ + 4.0 * EPS * want.abs();
                    let got = md.q_vectors[l][i].v;
                    if !((got - want).abs() <= tol) {
                        fail!("box-muller-user-scalar", "with a user scalar type (f64 arithmetic, only the required trait methods implemented) q[{l}][{i}] = {got:e} but Box-Muller of coordinates ({}, {}) gives {want:e} (component n={n}); case {c:?}", base + 2 * jp, base + 2 * jp + 1);
                    }
                }
            }
            ctx.label("user-scalar:checked");
        } else if let Err(SutErr::Panic(m)) = &run.res {
            fail!("sample-panic", "sampling with a user scalar panicked: {m}; case {c:?}");
        }
    }
    ctx.count("components_checked", (nl * D) as u64);
    if (nl * D) % 2 == 1 {
        ctx.label("DL-odd");
    }
    if (nl * D) % 2 == 1 || nl >= 2 {
        ctx.nontrivial();
    }
    Ok(())
}
pub fn check(c: &Phys, ctx: &mut Ctx) -> Result<(), Failure> {
    phys::validate_opt(c, true)?;
    with_d!(c.g.d, check_d(c, ctx))
}
/// corollary of the property: for uniform points the D*L components are standard normal and uncorrelated.
/// Sample moments over N uniform points per (D, L) configuration; thresholds at 6.5 standard errors.
fn moments_stage(tier: Tier, seed: u64, stats: &mut engine::Stats) -> serde_json::Value {
    use rand::{Rng, SeedableRng};
    let n = tier.pick(200_000usize, 2_000_000);
    let mut configs = 0;
    let mut worst: f64 = 0.0;
    fn one<const D: usize>(l: usize, n: usize, seed: u64, worst: &mut f64) -> Option<String> {
        // massive banana with l loops: always accepted with weights D/2 + 0.3
        let g = crate::oracle::graph::G { edges: (0..=l).map(|_| (0u8, 1u8)).collect(), massive: vec![true; l + 1], weights: vec![D as f64 / 2.0 + 0.3; l + 1], externals: vec![0, 1], d: D };
        let mut sig = vec![vec![0isize; l]; l + 1];
        for i in 0..l {
            sig[i][i] = 1;
            sig[l][i] = -1;
        }
        let s = sut::build::<D>(&g, sig).ok()?;
        let ne = l + 1;
        let dim = s.get_dimension();
        let k = D * l;
        let ed = sut::edge_data::<D>(&g.massive, &vec![1.0; ne], &vec![vec![0.3; D]; ne]);
        let mut rng = rand::rngs::StdRng::seed_from_u64(seed ^ ((D * 31 + l) as u64));
        let (mut m1, mut m2) = (vec![0.0f64; k], vec![vec![0.0f64; k]; k]);
        let mut cnt = 0usize;
        let st = sut::settings(None, false, true);
        for _ in 0..n {
            let x: Vec<f64> = (0..dim).map(|_| rng.gen::<f64>()).collect();
            let Ok(r) = sut::sample_t(&s, &x, ed.clone(), &st, &sut::NoLog) else { continue };
            let Some(md) = r.metadata else { continue };
            let q: Vec<f64> = md.q_vectors.iter().flat_map(|v| (0..D).map(|i| v[i]).collect::<Vec<_>>()).collect();
            if q.len() != k || q.iter().any(|v| !v.is_finite()) {
                continue;
            }
            cnt += 1;
            for a in 0..k {
                m1[a] += q[a];
                for b in a..k {
                    m2[a][b] += q[a] * q[b];
                }
            }
        }
        if cnt < n / 2 {
            return None;
        }
        let nn = cnt as f64;
        let thr = 6.5;
        for a in 0..k {
            let mean = m1[a] / nn;
            *worst = worst.max(mean.abs() * nn.sqrt() / thr);
            if mean.abs() * nn.sqrt() > thr {
                return Some(format!("D={D} L={l}: Gaussian component {a} has mean {mean:.5} over {cnt} uniform points (|z| = {:.1})", mean.abs() * nn.sqrt()));
            }
            for b in a..k {
                let c = m2[a][b] / nn - (m1[a] / nn) * (m1[b] / nn);
                let (want, se) = if a == b { (1.0, (2.0 / nn).sqrt()) } else { (0.0, (1.0 / nn).sqrt()) };
                let z = (c - want).abs() / se;
                *worst = worst.max(z / thr);
                if z > thr {
                    return Some(format!("D={D} L={l}: covariance of Gaussian components ({a},{b}) is {c:.5}, expected {want} (|z| = {z:.1}, N = {cnt}): components are not independent standard normals"));
                }
            }
        }
        Some(String::new())
    }
    let combos: &[(usize, usize)] = &[(1, 1), (1, 4), (2, 3), (3, 2), (3, 3), (4, 2), (5, 1), (5, 3), (6, 2), (3, 5)];
    for &(d, l) in combos {
        let r = match d {
            1 => one::<1>(l, n, seed, &mut worst),
            2 => one::<2>(l, n, seed, &mut worst),
            3 => one::<3>(l, n, seed, &mut worst),
            4 => one::<4>(l, n, seed, &mut worst),
            5 => one::<5>(l, n, seed, &mut worst),
            _ => one::<6>(l, n, seed, &mut worst),
        };
        match r {
            Some(m) if m.is_empty() => configs += 1,
            Some(m) => {
                stats.failures.push((Failure::new("gaussian-moments", m), serde_json::json!({"note": "statistical stage, no single replayable point", "D": d, "L": l, "N": n, "seed": seed})));
            }
            None => {}
        }
    }
    serde_json::json!({"moment_test_configurations": configs, "moment_test_points_each": n, "moment_test_worst_z_over_threshold": worst})
}

pub fn run(tier: Tier, seed: u64) -> i32 {
    let t0 = Instant::now();
    let sp = Spec { id: "C13", rule: RULE, tape_len: 280, cases: tier.pick(150_000, 1_500_000), gen: gen_case, check, max_shrink_iters: 3000, shards: 16 };
    let mut stats = engine::run_spec(&sp, tier, seed);
    engine::run_regressions::<Phys>("C13", check, &mut stats);
    let extra = moments_stage(tier, seed, &mut stats);
    engine::finish("C13", tier, seed, RULE, stats, t0, extra, &["q_vectors observed through return_metadata", "reference Box-Muller evaluated with std f64 functions, tolerance 2e-14*r covers the rounding of 2*pi*b"])
}
pub fn replay(path: &str) -> i32 {
    engine::replay_file::<Phys>("C13", path, check)
}
