//! C13 — Gaussian vectors are the Box–Muller transform of their designated coordinates.
use super::phys::{self, EPS};
use crate::engine::{self, Ctx, Failure, Spec, Tape, Tier};
use crate::fail;
use crate::gen::{self, Phys, PhysOpts};
use crate::sut::{self, BuildErr, SutErr};
use crate::with_d;
use std::time::Instant;

pub const RULE: &str = "cases = accepted connected graphs with D=1..6, L=1..5 (so D*L covers odd and even values), points whose Box-Muller coordinates a in (0,1) include 1e-300, 2^-53, 1-2^-53 and b in [0,1) includes 0, 1/8, 1/4, 1/2, 3/4, 1-2^-53. oracle: component n=l*D+i of the metadata q_vectors equals sqrt(-2 ln a_j) cos(2 pi b_j) (n even) or sin (n odd) with j = n div 2 and the pair at coordinates 2E-1+2j, 2E+2j; absolute tolerance 2e-14*r; for odd D*L the last sine is unused. non-trivial = D*L odd or L>=2; distinct = distinct case encodings";

pub fn gen_case(t: &mut Tape, tier: Tier) -> Option<Phys> {
    let opts = PhysOpts { max_e: tier.pick(8, 9), max_l: 5, min_omega: 0.15, dmax: 6, max_ops: 1, profile: gen::PointProfile { u_w: [0.6, 0.4, 0.0, 0.0], xi_w: [0.3, 0.0, 0.7, 0.0], lambda_tail: 0.0, bm_extreme: 0.35 } };
    if t.chance(0.1) {
        gen::gen_phys_union(t, &opts)
    } else {
        gen::gen_phys(t, &opts)
    }
}

fn check_d<const D: usize>(c: &Phys, ctx: &mut Ctx) -> Result<(), Failure> {
    phys::classes_label(c, ctx);
    let (ne, nl) = phys::validate_opt(c, true)?;
    let g = &c.g;
    let s = match sut::build::<D>(g, c.kin.sig.clone()) {
        Ok(s) => s,
        Err(BuildErr::Rejected(_)) | Err(BuildErr::Panic(_)) => {
            ctx.label("skip:not-built");
            return Ok(());
        }
    };
    let ed = sut::edge_data::<D>(&g.massive, &c.kin.masses, &c.kin.shifts);
    let out = match sut::sample_f64(&s, &c.x, ed, None, false, true) {
        Ok(o) => o,
        Err(SutErr::Panic(m)) => fail!("sample-panic", "sampling panicked: {m}; case {c:?}"),
        Err(_) => {
            ctx.label("skip:sample-error");
            return Ok(());
        }
    };
    let Some(md) = out.meta else { fail!("no-metadata", "return_metadata=true but no metadata") };
    if md.q.len() != nl || md.q.iter().any(|v| v.len() != D) {
        fail!("q-shape", "q_vectors has shape {:?}, expected {nl} x {D}", md.q.iter().map(|v| v.len()).collect::<Vec<_>>());
    }
    let base = 2 * ne - 1;
    for l in 0..nl {
        for i in 0..D {
            let n = l * D + i;
            let jp = n / 2;
            let a = c.x[base + 2 * jp];
            let b = c.x[base + 2 * jp + 1];
            if !(a > 0.0) {
                fail!("bad-case", "Box-Muller coordinate a must be in (0,1)");
            }
            let r = (-2.0 * a.ln()).sqrt();
            let th = 2.0 * std::f64::consts::PI * b;
            let want = if n % 2 == 0 { r * th.cos() } else { r * th.sin() };
            let tol = 2e-14 * r + 4.0 * EPS * want.abs();
            let err = (md.q[l][i] - want).abs();
            ctx.max("box_muller_err_over_tol", if tol > 0.0 { err / tol } else { 0.0 });
            if !(err <= tol) {
                fail!("box-muller", "q[{l}][{i}] = {:e} but Box-Muller of coordinates ({}, {}) = (a={a:e}, b={b:e}) gives {want:e} (component n={n}, pair {jp}); case {c:?}", md.q[l][i], base + 2 * jp, base + 2 * jp + 1);
            }
        }
    }
    ctx.count("components_checked", (nl * D) as u64);
    if (nl * D) % 2 == 1 {
        ctx.label("DL-odd");
    }
    if (nl * D) % 2 == 1 || nl >= 2 {
        ctx.nontrivial();
    }
    Ok(())
}
pub fn check(c: &Phys, ctx: &mut Ctx) -> Result<(), Failure> {
    phys::validate_opt(c, true)?;
    with_d!(c.g.d, check_d(c, ctx))
}
pub fn run(tier: Tier, seed: u64) -> i32 {
    let t0 = Instant::now();
    let sp = Spec { id: "C13", rule: RULE, tape_len: 280, cases: tier.pick(150_000, 1_500_000), gen: gen_case, check, max_shrink_iters: 3000, shards: 16 };
    let mut stats = engine::run_spec(&sp, tier, seed);
    engine::run_regressions::<Phys>("C13", check, &mut stats);
    engine::finish("C13", tier, seed, RULE, stats, t0, serde_json::json!({}), &["q_vectors observed through return_metadata", "reference Box-Muller evaluated with std f64 functions, tolerance 2e-14*r covers the rounding of 2*pi*b"])
}
pub fn replay(path: &str) -> i32 {
    engine::replay_file::<Phys>("C13", path, check)
}
