//! C02 — sample weights are bounded by graph- and kinematics-only constants.
use super::phys::{self, Eval, EPS};
use crate::engine::{self, Ctx, Failure, Spec, Tape, Tier};
use crate::fail;
use crate::gen::{self, Phys, PhysOpts};
use crate::with_d;
use std::time::Instant;

pub const RULE: &str = "cases = accepted connected graphs (G-phys) with generic kinematics; points from the corner-heavy profile (u at interval interiors, at +-3 ulp of cumulative boundaries, at 0 / 2^-53 / 1-2^-53; xi uniform, halving, moderate, tiny), so that rare sectors and corners are reached. oracle: N_T, c_min, C_sum and the tropical polynomials U_tr, V_tr by brute force at the logged rescaled parameters; asserts U_tr<=u<=N_T U_tr, (c_min/N_T) V_tr<=v<=C_sum V_tr and jacobian/normalisation in [N_T^(-D/2) C_sum^(-dod), (N_T/c_min)^dod], each widened by the condition-scaled tolerance; applies where kappa*c_V<=1e8 and the magnitude guard holds. non-trivial = (L>=2 or mixed masses) and (a boundary/extreme/tiny coordinate class or a non-identity removal order); distinct = distinct case encodings";

pub fn gen_case(t: &mut Tape, tier: Tier) -> Option<Phys> {
    let mo = if t.chance(0.4) { 1.0 / 64.0 } else { 0.15 };
    let opts = PhysOpts { max_e: tier.pick(8, 9), max_l: 8, min_omega: mo, dmax: 6, max_ops: 2, profile: gen::CORNERS };
    if t.chance(0.1) {
        // "all accepted graphs" includes disconnected ones: physical component + massive vacuum component
        gen::gen_phys_union(t, &opts)
    } else {
        gen::gen_phys(t, &opts)
    }
}

pub fn assert_c02(c: &Phys, ev: &Eval, ctx: &mut Ctx) -> Result<(), Failure> {
    let d = c.g.d as f64;
    if ev.sym.degenerate_momenta {
        // the code's tropical polynomials are topological; they coincide with the largest monomials of the actual F
        // only for generic momenta (no partial sum of external momenta vanishes)
        ctx.label("excluded:non-generic-momenta");
        return Ok(());
    }
    if !ev.in_range {
        ctx.label("excluded:out-of-range");
        return Ok(());
    }
    if !(ev.kappa * ev.cv <= 1e8) {
        ctx.label("excluded:cond(V)>1e8");
        return Ok(());
    }
    let xs = &ev.xs;
    let (utr, vtr) = (ev.sym.u_trop(xs), ev.sym.v_trop(xs));
    let (nt, cmin, csum) = (ev.sym.n_trees(), ev.sym.c_min(), ev.sym.c_sum());
    let (u, v) = (ev.out.u, ev.out.v);
    let slack = 64.0 * ev.ne as f64 * EPS;
    let (tu, tv) = (ev.tau_u + slack, ev.tau_v + slack);
    if !(u >= utr * (1.0 - tu)) {
        fail!("u-below-tropical", "u={u:e} < U_tr={utr:e} (tolerance {tu:e}) for {c:?}");
    }
    if !(u <= nt * utr * (1.0 + tu)) {
        fail!("u-above-NT-tropical", "u={u:e} > N_T*U_tr = {nt}*{utr:e} for {c:?}");
    }
    if !(v >= cmin / nt * vtr * (1.0 - tv)) {
        fail!("v-below-bound", "v={v:e} < (c_min/N_T) V_tr = ({cmin:e}/{nt})*{vtr:e} for {c:?}");
    }
    if !(v <= csum * vtr * (1.0 + tv)) {
        fail!("v-above-bound", "v={v:e} > C_sum V_tr = {csum:e}*{vtr:e} for {c:?}");
    }
    let ratio = ev.out.jac / ev.tab.cached_factor;
    let lo = nt.powf(-d / 2.0) * csum.powf(-ev.dod);
    let hi = (nt / cmin).powf(ev.dod);
    // the interval of the statement assumes U_tr^(D/2) V_tr^dod = 1 (checked by C07) and c_min <= N_T-normalised bound; add U side for hi
    let hi = hi.max((nt / cmin).powf(ev.dod) * 1.0);
    let tr = (d / 2.0) * tu + ev.dod.abs() * tv + 256.0 * EPS * (1.0 + d / 2.0 * u.ln().abs() + ev.dod * v.ln().abs());
    ctx.max("ratio_over_upper_bound", ratio / hi);
    ctx.max("lower_bound_over_ratio", lo / ratio);
    if !(ratio >= lo * (1.0 - tr)) {
        fail!("weight-below-lower-bound", "jacobian/normalisation = {ratio:e} < N_T^(-D/2) C_sum^(-dod) = {lo:e} for {c:?}");
    }
    if !(ratio <= hi * (1.0 + tr)) {
        fail!("weight-above-upper-bound", "jacobian/normalisation = {ratio:e} > (N_T/c_min)^dod = {hi:e} for {c:?}");
    }
    let mixed = c.g.massive.iter().any(|&m| m) && c.g.massive.iter().any(|&m| !m);
    let identity = ev.path.order.iter().enumerate().all(|(i, &e)| i == e);
    let corner = c.classes.iter().any(|s| s == "u:boundary" || s == "u:extreme" || s == "xi:tiny");
    if (ev.nl >= 2 || mixed) && (corner || !identity) {
        ctx.nontrivial();
    }
    Ok(())
}

fn check_d<const D: usize>(c: &Phys, ctx: &mut Ctx) -> Result<(), Failure> {
    phys::classes_label(c, ctx);
    let Some(ev) = phys::evaluate::<D>(c, ctx, None)? else { return Ok(()) };
    assert_c02(c, &ev, ctx)
}
pub fn check(c: &Phys, ctx: &mut Ctx) -> Result<(), Failure> {
    phys::validate_opt(c, true)?;
    with_d!(c.g.d, check_d(c, ctx))
}
pub fn run(tier: Tier, seed: u64) -> i32 {
    let t0 = Instant::now();
    let sp = Spec { id: "C02", rule: RULE, tape_len: 280, cases: tier.pick(100_000, 1_000_000), gen: gen_case, check, max_shrink_iters: 3000, shards: 16 };
    let mut stats = engine::run_spec(&sp, tier, seed);
    engine::run_regressions::<Phys>("C02", check, &mut stats);
    engine::finish("C02", tier, seed, RULE, stats, t0, serde_json::json!({}), &["rescaled parameters read from the crate's debug log (checked by C07)", "brute-force enumeration of spanning trees / 2-forests gives N_T, c_min, C_sum", "normalisation read through serde (checked by C04)"])
}
pub fn replay(path: &str) -> i32 {
    engine::replay_file::<Phys>("C02", path, check)
}
