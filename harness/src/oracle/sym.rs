//! R-Sym: Symanzik polynomials by brute-force enumeration of spanning trees and spanning 2-forests.
//! All terms are non-negative, so plain f64 sums are accurate to (#terms)·eps.
use super::graph::{find, q, qf, G, Q};
use num::{Signed, Zero};

#[derive(Clone, Debug)]
pub struct Sym {
    pub ne: usize,
    pub nl: usize,
    /// kept-edge masks of spanning trees
    pub trees: Vec<usize>,
    /// (kept-edge mask of the 2-forest, merged coefficient: momentum^2 + sum of m_e^2 over edges e joining the two trees)
    pub forests: Vec<(usize, f64)>,
    /// (tree mask, edge e not in tree, m_e^2): monomials x_e^2 * prod_{e' not in T, e'!=e} x_e'
    pub mass_sq_terms: Vec<(usize, usize, f64)>,
    pub masses2: Vec<f64>,
    /// true if some 2-forest separates the external vertices (momentum must flow between the two trees) although
    /// the momentum actually flowing is (numerically) zero: non-generic kinematics
    pub degenerate_momenta: bool,
    /// Euclidean norm of the momentum flowing between the two trees of each 2-forest (parallel to `forests`)
    pub forest_qn: Vec<f64>,
    /// sum over the external vertices of the 1-norms of their momenta
    pub pabs: f64,
    /// largest component of the exact sum of all external momenta (0 for exactly conserving input)
    pub defect: f64,
    pub dmom: usize,
}

fn compress(g: &G) -> (Vec<(usize, usize)>, usize, Vec<usize>) {
    let mut map = vec![usize::MAX; 256];
    let mut nv = 0;
    let mut edges = vec![];
    for &(a, b) in &g.edges {
        for v in [a, b] {
            if map[v as usize] == usize::MAX {
                map[v as usize] = nv;
                nv += 1;
            }
        }
        edges.push((map[a as usize], map[b as usize]));
    }
    (edges, nv, map)
}

impl Sym {
    /// `inflow`: momentum entering at each external vertex (must sum to zero); `masses`: per edge (0 for massless)
    pub fn new(g: &G, inflow: &[(u8, Vec<f64>)], masses: &[f64]) -> Sym {
        let ne = g.nedges();
        let (edges, nv, map) = compress(g);
        let nl = g.num_loops();
        let full = (1usize << ne) - 1;
        let ext: Vec<(usize, &Vec<f64>)> = inflow.iter().filter(|(v, _)| map[*v as usize] != usize::MAX).map(|(v, p)| (map[*v as usize], p)).collect();
        let dmom = inflow.first().map(|(_, p)| p.len()).unwrap_or(0);
        let masses2: Vec<f64> = masses.iter().map(|m| m * m).collect();
        // connected components of the full graph (the polynomials of a disconnected graph factorise:
        // "spanning tree" = spanning forest with one tree per component, "2-forest" = one of those trees cut in two)
        let mut p0: Vec<usize> = (0..nv).collect();
        for e in 0..ne {
            let (ra, rb) = (find(&mut p0, edges[e].0), find(&mut p0, edges[e].1));
            if ra != rb {
                p0[ra] = rb;
            }
        }
        let comp0: Vec<usize> = (0..nv).map(|v| find(&mut p0, v)).collect();
        let ncomp0 = (0..nv).filter(|&v| comp0[v] == v).count();
        let mut trees = vec![];
        let mut forests = vec![];
        let mut mass_sq_terms = vec![];
        let mut degenerate_momenta = false;
        let pscale: f64 = ext.iter().map(|(_, p)| p.iter().map(|a| a * a).sum::<f64>()).fold(0.0, f64::max);
        // the external momenta are f64 numbers: they conserve momentum up to rounding only. The exact defect is split
        // evenly between the two sides of every cut, and reported so that tolerances can account for it.
        let finite_ext = ext.iter().all(|(_, p)| p.iter().all(|a| a.is_finite()));
        let extq: Vec<Vec<Q>> = if finite_ext { ext.iter().map(|(_, p)| p.iter().map(|&a| q(a)).collect()).collect() } else { vec![] };
        let mut defect = 0.0f64;
        let pabs: f64 = ext.iter().map(|(_, p)| p.iter().map(|a| a.abs()).sum::<f64>()).sum();
        let mut forest_qn = vec![];
        for m in 0..=full {
            let k = (m as u64).count_ones() as usize;
            if k + ncomp0 != nv && k + ncomp0 + 1 != nv {
                continue;
            }
            let mut p: Vec<usize> = (0..nv).collect();
            let mut acyclic = true;
            for e in 0..ne {
                if m >> e & 1 == 1 {
                    let (ra, rb) = (find(&mut p, edges[e].0), find(&mut p, edges[e].1));
                    if ra != rb {
                        p[ra] = rb;
                    } else {
                        acyclic = false;
                        break;
                    }
                }
            }
            if !acyclic {
                continue;
            }
            if k + ncomp0 == nv {
                trees.push(m);
                for e in 0..ne {
                    if m >> e & 1 == 0 && masses2[e] > 0.0 {
                        mass_sq_terms.push((m, e, masses2[e]));
                    }
                }
            } else {
                // exactly one original component is cut in two: T1 = the part containing its first vertex
                let roots: Vec<usize> = (0..nv).map(|v| find(&mut p, v)).collect();
                let mut split = usize::MAX;
                let mut first_root: Vec<usize> = vec![usize::MAX; nv];
                for v in 0..nv {
                    let c0 = comp0[v];
                    if first_root[c0] == usize::MAX {
                        first_root[c0] = roots[v];
                    } else if first_root[c0] != roots[v] {
                        split = c0;
                    }
                }
                if split == usize::MAX {
                    continue;
                }
                let in_t1: Vec<bool> = (0..nv).map(|v| comp0[v] == split && roots[v] == first_root[split]).collect();
                let in_split: Vec<bool> = (0..nv).map(|v| comp0[v] == split).collect();
                let n_in = ext.iter().filter(|(v, _)| in_t1[*v]).count();
                let n_comp = ext.iter().filter(|(v, _)| in_split[*v]).count();
                let mut c = 0.0;
                if n_in != 0 && n_in != n_comp {
                    let mut qv = vec![0.0; dmom];
                    if finite_ext {
                        // exact sum over one side minus half the conservation defect, rounded once
                        for kk in 0..dmom {
                            let (mut s1, mut sall) = (Q::zero(), Q::zero());
                            for (i, (v, _)) in ext.iter().enumerate() {
                                if in_split[*v] {
                                    sall += &extq[i][kk];
                                    if in_t1[*v] {
                                        s1 += &extq[i][kk];
                                    }
                                }
                            }
                            defect = defect.max(qf(&sall.abs()));
                            qv[kk] = qf(&(s1 - sall / Q::from_integer(2.into())));
                        }
                    } else {
                        for (v, pm) in &ext {
                            if in_t1[*v] {
                                for kk in 0..dmom {
                                    qv[kk] += pm[kk];
                                }
                            }
                        }
                    }
                    c = qv.iter().map(|a| a * a).sum();
                    if !(c > 1e-20 * pscale) {
                        degenerate_momenta = true;
                    }
                }
                let cmom: f64 = c;
                // mass terms merged: edges joining the two parts
                for e in 0..ne {
                    let (a, b) = edges[e];
                    if m >> e & 1 == 0 && masses2[e] > 0.0 && in_split[a] && in_split[b] && in_t1[a] != in_t1[b] {
                        c += masses2[e];
                    }
                }
                forest_qn.push(cmom.sqrt());
                forests.push((m, c));
            }
        }
        Sym { ne, nl, trees, forests, mass_sq_terms, masses2, degenerate_momenta, forest_qn, pabs, defect, dmom }
    }
    #[inline]
    fn mono(&self, kept: usize, x: &[f64]) -> f64 {
        let mut p = 1.0;
        for e in 0..self.ne {
            if kept >> e & 1 == 0 {
                p *= x[e];
            }
        }
        p
    }
    pub fn u(&self, x: &[f64]) -> f64 {
        self.trees.iter().map(|&m| self.mono(m, x)).sum()
    }
    pub fn f(&self, x: &[f64]) -> f64 {
        let a: f64 = self.forests.iter().map(|&(m, c)| c * self.mono(m, x)).sum();
        let b: f64 = self.mass_sq_terms.iter().map(|&(m, e, c)| c * self.mono(m, x) * x[e]).sum();
        a + b
    }
    /// bound on the change of F when every component of every momentum flowing through a cut is uncertain by `delta`
    pub fn f_kin_err(&self, x: &[f64], delta: f64) -> f64 {
        let d = self.dmom as f64;
        self.forests.iter().zip(&self.forest_qn).filter(|(_, qn)| **qn > 0.0).map(|(&(m, _), &qn)| (2.0 * qn * delta * d.sqrt() + d * delta * delta) * self.mono(m, x)).sum()
    }
    pub fn v(&self, x: &[f64]) -> f64 {
        self.f(x) / self.u(x)
    }
    pub fn u_trop(&self, x: &[f64]) -> f64 {
        self.trees.iter().map(|&m| self.mono(m, x)).fold(0.0, f64::max)
    }
    pub fn f_trop(&self, x: &[f64]) -> f64 {
        let a = self.forests.iter().filter(|&&(_, c)| c > 0.0).map(|&(m, _)| self.mono(m, x)).fold(0.0, f64::max);
        let b = self.mass_sq_terms.iter().map(|&(m, e, _)| self.mono(m, x) * x[e]).fold(0.0, f64::max);
        a.max(b)
    }
    pub fn v_trop(&self, x: &[f64]) -> f64 {
        self.f_trop(x) / self.u_trop(x)
    }
    fn ln_mono(&self, kept: usize, lnx: &[f64]) -> f64 {
        (0..self.ne).filter(|e| kept >> e & 1 == 0).map(|e| lnx[e]).sum()
    }
    /// ln of the largest monomial of U given ln x_e
    pub fn ln_u_trop(&self, lnx: &[f64]) -> f64 {
        self.trees.iter().map(|&m| self.ln_mono(m, lnx)).fold(f64::NEG_INFINITY, f64::max)
    }
    /// ln of the largest monomial of F given ln x_e
    pub fn ln_f_trop(&self, lnx: &[f64]) -> f64 {
        let a = self.forests.iter().filter(|&&(_, c)| c > 0.0).map(|&(m, _)| self.ln_mono(m, lnx)).fold(f64::NEG_INFINITY, f64::max);
        let b = self.mass_sq_terms.iter().map(|&(m, e, _)| self.ln_mono(m, lnx) + lnx[e]).fold(f64::NEG_INFINITY, f64::max);
        a.max(b)
    }
    pub fn n_trees(&self) -> f64 {
        self.trees.len() as f64
    }
    /// smallest non-zero coefficient of F
    pub fn c_min(&self) -> f64 {
        let a = self.forests.iter().filter(|&&(_, c)| c > 0.0).map(|&(_, c)| c).fold(f64::INFINITY, f64::min);
        let b = self.mass_sq_terms.iter().map(|&(_, _, c)| c).fold(f64::INFINITY, f64::min);
        a.min(b)
    }
    /// sum of the coefficients of F
    pub fn c_sum(&self) -> f64 {
        self.forests.iter().map(|&(_, c)| c).sum::<f64>() + self.mass_sq_terms.iter().map(|&(_, _, c)| c).sum::<f64>()
    }
    /// F is not identically zero
    pub fn f_nonzero(&self) -> bool {
        self.forests.iter().any(|&(_, c)| c > 0.0) || !self.mass_sq_terms.is_empty()
    }
}
