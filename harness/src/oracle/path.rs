//! Oracle-side simulation of the sector decomposition walk (which edge is removed when), exact rationals.
use super::graph::{q, qf, Q};
use num::{Signed, Zero};

#[derive(Clone, Debug)]
pub struct Step {
    /// subgraph before the removal
    pub sub: usize,
    /// the u coordinate used (None for the last, single-edge step)
    pub u: Option<f64>,
    /// edge the exact cumulative sums select (first k with C_k >= u; last edge if u is above every C_k)
    pub chosen: usize,
    /// other edges that are acceptable because u is within `tol` of a boundary
    pub also_ok: Vec<usize>,
    /// smallest |C_k - u| over the boundaries of this step
    pub gap: f64,
    /// true if u lies above the last exact cumulative sum (only rounding can cause this)
    pub above_all: bool,
}
#[derive(Clone, Debug)]
pub struct PathSim {
    pub steps: Vec<Step>,
    pub order: Vec<usize>,
    pub min_gap: f64,
    /// ln of the predicted unrescaled Feynman parameter of each edge
    pub lnx0: Vec<f64>,
    /// predicted unrescaled parameters computed with the same f64 operations as the algorithm describes
    pub x0: Vec<f64>,
    /// per edge: sum over the factors of |ln xi_j| / omega_j^2 (sensitivity of ln x to an absolute error of omega)
    /// and sum of |ln xi_j| / omega_j (sensitivity to relative errors of 1/omega and of the power function)
    pub sens_abs: Vec<f64>,
    pub sens_rel: Vec<f64>,
}

/// exact probabilities p_e = J(g\e)/(J(g) omega(g\e)) in index order with exact cumulative sums
pub fn cum_exact(ne: usize, sub: usize, omega: &[f64], j: &[f64]) -> Vec<(usize, Q)> {
    let mut acc = Q::zero();
    let mut out = vec![];
    let js = q(j[sub]);
    for e in 0..ne {
        if sub >> e & 1 == 1 {
            let w = sub ^ (1 << e);
            acc += q(j[w]) / &js / q(omega[w]);
            out.push((e, acc.clone()));
        }
    }
    out
}

/// walk the removal path dictated by the point `x` (coordinates 2j = u_j, 2j+1 = xi_j)
pub fn simulate(ne: usize, omega: &[f64], j: &[f64], x: &[f64], tol: f64) -> PathSim {
    let mut sub = (1usize << ne) - 1;
    let mut steps = vec![];
    let mut order = vec![];
    let mut lnx0 = vec![0.0; ne];
    let mut x0 = vec![0.0; ne];
    let mut lnk = 0.0f64;
    let mut kappa = 1.0f64;
    let (mut sa, mut sr) = (0.0f64, 0.0f64);
    let mut sens_abs = vec![0.0; ne];
    let mut sens_rel = vec![0.0; ne];
    let mut min_gap = f64::INFINITY;
    for step in 0..ne {
        let nedges = (sub as u64).count_ones();
        let (chosen, st) = if nedges == 1 {
            let e = sub.trailing_zeros() as usize;
            (e, Step { sub, u: None, chosen: e, also_ok: vec![], gap: f64::INFINITY, above_all: false })
        } else {
            let u = x[2 * step];
            let uq = q(u);
            let cp = cum_exact(ne, sub, omega, j);
            let mut chosen = None;
            let mut gap = f64::INFINITY;
            let mut also = vec![];
            for (i, (e, c)) in cp.iter().enumerate() {
                let d = qf(&(c - &uq).abs());
                if d < gap {
                    gap = d;
                }
                if chosen.is_none() && c >= &uq {
                    chosen = Some(*e);
                }
                if d <= tol {
                    // u within tolerance of boundary i: edge i and edge i+1 are both defensible
                    also.push(*e);
                    if i + 1 < cp.len() {
                        also.push(cp[i + 1].0);
                    }
                }
            }
            let above = chosen.is_none();
            let ch = chosen.unwrap_or(cp.last().unwrap().0);
            also.retain(|e| *e != ch);
            also.dedup();
            (ch, Step { sub, u: Some(u), chosen: ch, also_ok: also, gap, above_all: above })
        };
        min_gap = min_gap.min(st.gap);
        steps.push(st);
        order.push(chosen);
        lnx0[chosen] = lnk;
        x0[chosen] = kappa;
        sens_abs[chosen] = sa;
        sens_rel[chosen] = sr;
        sub ^= 1 << chosen;
        if sub != 0 {
            let xi = x[2 * step + 1];
            lnk += xi.ln() / omega[sub];
            kappa *= xi.powf(1.0 / omega[sub]);
            sa += xi.ln().abs() / (omega[sub] * omega[sub]);
            sr += xi.ln().abs() / omega[sub].abs();
        }
    }
    PathSim { steps, order, min_gap, lnx0, x0, sens_abs, sens_rel }
}
