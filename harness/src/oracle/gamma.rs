//! R-Γ: own ln Γ, regularised incomplete gamma functions P(a,x), Q(a,x). Independent of statrs.

/// ln Γ(x), x > 0: shift to x >= 20 then Stirling series
pub fn ln_gamma(x: f64) -> f64 {
    if !(x > 0.0) {
        return f64::NAN;
    }
    let mut x = x;
    let mut shift = 0.0; // ln of the product x (x+1) ... accumulated
    let mut prod = 1.0f64;
    while x < 20.0 {
        prod *= x;
        if prod > 1e200 {
            shift += prod.ln();
            prod = 1.0;
        }
        x += 1.0;
    }
    shift += prod.ln();
    let xi = 1.0 / x;
    let xi2 = xi * xi;
    // Bernoulli series
    let series = xi * (1.0 / 12.0 - xi2 * (1.0 / 360.0 - xi2 * (1.0 / 1260.0 - xi2 * (1.0 / 1680.0 - xi2 * (1.0 / 1188.0 - xi2 * (691.0 / 360360.0 - xi2 * (1.0 / 156.0)))))));
    (x - 0.5) * x.ln() - x + 0.918_938_533_204_672_741_78 + series - shift
}
pub fn gamma_fn(x: f64) -> f64 {
    ln_gamma(x).exp()
}

/// (P(a,x), Q(a,x)) for a > 0, x >= 0, each computed without cancellation
pub fn pq(a: f64, x: f64) -> (f64, f64) {
    if x.is_nan() || a.is_nan() {
        return (f64::NAN, f64::NAN);
    }
    if x <= 0.0 {
        return (0.0, 1.0);
    }
    if x == f64::INFINITY {
        return (1.0, 0.0);
    }
    let lg = a * x.ln() - x - ln_gamma(a + 1.0); // ln( x^a e^-x / Γ(a+1) )
    if x < a + 1.0 {
        // series for P
        let mut term = 1.0;
        let mut sum = 1.0;
        let mut n = 1.0;
        loop {
            term *= x / (a + n);
            sum += term;
            if term < sum * 1e-17 || n > 100000.0 {
                break;
            }
            n += 1.0;
        }
        let p = (lg.exp() * sum).min(1.0);
        (p, 1.0 - p)
    } else {
        // modified Lentz continued fraction for Q
        let tiny = 1e-300;
        let mut b = x + 1.0 - a;
        let mut c = 1.0 / tiny;
        let mut d = 1.0 / b;
        let mut h = d;
        let mut i = 1.0;
        loop {
            let an = -i * (i - a);
            b += 2.0;
            d = an * d + b;
            if d.abs() < tiny {
                d = tiny;
            }
            c = b + an / c;
            if c.abs() < tiny {
                c = tiny;
            }
            d = 1.0 / d;
            let del = d * c;
            h *= del;
            if (del - 1.0).abs() < 1e-16 || i > 100000.0 {
                break;
            }
            i += 1.0;
        }
        // Q = e^-x x^a / Γ(a) * h ; Γ(a) = Γ(a+1)/a
        let qv = ((lg + a.ln()).exp() * h).min(1.0);
        (1.0 - qv, qv)
    }
}

#[cfg(test)]
mod tests {
    use super::*;
    #[test]
    fn spot() {
        assert!((ln_gamma(0.5) - 0.5723649429247001).abs() < 1e-14);
        assert!((ln_gamma(10.0) - 12.801827480081469).abs() < 1e-13);
        // P(1,x) = 1-e^-x
        for x in [1e-10, 0.1, 1.0, 3.0, 30.0] {
            let (p, q) = pq(1.0, x);
            assert!((p - (1.0 - (-x as f64).exp())).abs() < 1e-14, "{x} {p}");
            assert!((q - (-x as f64).exp()).abs() < 1e-14 * q.max(1e-300) + 1e-17);
        }
        // P(1/2, x) = erf(sqrt x): P(0.5, 0.25)= erf(0.5)=0.5204998778130465
        assert!((pq(0.5, 0.25).0 - 0.5204998778130465).abs() < 1e-14);
        assert!((pq(0.5, 4.0).1 - 0.004677734981047266).abs() < 1e-15);
    }
}
