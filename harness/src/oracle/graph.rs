//! R-graph: reference model of the subgraph table, written from the statement of C03 (union–find).
use num::{BigRational, Zero};
use serde::{Deserialize, Serialize};

pub type Q = BigRational;
pub fn q(x: f64) -> Q {
    BigRational::from_float(x).expect("finite float")
}
pub fn qi(x: i64) -> Q {
    BigRational::from_integer(x.into())
}
pub fn qf(x: &Q) -> f64 {
    use num::ToPrimitive;
    // BigRational::to_f64 can lose everything when numerator/denominator are huge; scale first
    let n = x.numer();
    let d = x.denom();
    let nb = n.bits() as i64;
    let db = d.bits() as i64;
    if nb < 900 && db < 900 {
        return x.to_f64().unwrap_or(f64::NAN);
    }
    // shift both down so that they fit
    let sh_n = (nb - 200).max(0) as usize;
    let sh_d = (db - 200).max(0) as usize;
    let nf = (n >> sh_n).to_f64().unwrap_or(f64::NAN);
    let df = (d >> sh_d).to_f64().unwrap_or(f64::NAN);
    (nf / df) * 2f64.powi(sh_n as i32 - sh_d as i32)
}

#[derive(Clone, Debug, Serialize, Deserialize, PartialEq)]
pub struct G {
    pub edges: Vec<(u8, u8)>,
    pub massive: Vec<bool>,
    pub weights: Vec<f64>,
    pub externals: Vec<u8>,
    pub d: usize,
}

pub fn find(p: &mut [usize], a: usize) -> usize {
    let mut a = a;
    while p[a] != a {
        p[a] = p[p[a]];
        a = p[a];
    }
    a
}

/// one entry of the reference table
#[derive(Clone, Debug)]
pub struct RefEntry {
    pub loops: usize,
    pub spanning: bool,
    pub omega: Q,
}

impl G {
    pub fn nedges(&self) -> usize {
        self.edges.len()
    }
    pub fn full(&self) -> usize {
        (1usize << self.nedges()) - 1
    }
    /// cyclomatic number: edges - touched vertices + components
    pub fn loops(&self, mask: usize) -> usize {
        let mut p: Vec<usize> = (0..256).collect();
        let mut touched = [false; 256];
        let mut ne = 0;
        for e in 0..self.nedges() {
            if mask >> e & 1 == 1 {
                ne += 1;
                let (a, b) = self.edges[e];
                touched[a as usize] = true;
                touched[b as usize] = true;
                let (ra, rb) = (find(&mut p, a as usize), find(&mut p, b as usize));
                if ra != rb {
                    p[ra] = rb;
                }
            }
        }
        let nv = touched.iter().filter(|&&t| t).count();
        let mut ncomp = 0;
        for v in 0..256 {
            if touched[v] && find(&mut p, v) == v {
                ncomp += 1;
            }
        }
        ne + ncomp - nv
    }
    /// contains every massive edge and has one connected component touching every external vertex
    pub fn spanning(&self, mask: usize) -> bool {
        if mask == 0 {
            return false;
        }
        for e in 0..self.nedges() {
            if self.massive[e] && mask >> e & 1 == 0 {
                return false;
            }
        }
        let mut p: Vec<usize> = (0..256).collect();
        let mut touched = [false; 256];
        for e in 0..self.nedges() {
            if mask >> e & 1 == 1 {
                let (a, b) = self.edges[e];
                touched[a as usize] = true;
                touched[b as usize] = true;
                let (ra, rb) = (find(&mut p, a as usize), find(&mut p, b as usize));
                if ra != rb {
                    p[ra] = rb;
                }
            }
        }
        if self.externals.is_empty() {
            return true;
        }
        for &v in &self.externals {
            if !touched[v as usize] {
                return false;
            }
        }
        let r0 = find(&mut p, self.externals[0] as usize);
        self.externals.iter().all(|&v| find(&mut p, v as usize) == r0)
    }
    pub fn wsum_q(&self, mask: usize) -> Q {
        (0..self.nedges()).filter(|e| mask >> e & 1 == 1).fold(Q::zero(), |a, e| a + q(self.weights[e]))
    }
    pub fn wsum_abs(&self) -> f64 {
        self.weights.iter().map(|w| w.abs()).sum()
    }
    /// exact overall degree of divergence
    pub fn dod_q(&self) -> Q {
        let full = self.full();
        self.wsum_q(full) - qi((self.loops(full) * self.d) as i64) / qi(2)
    }
    pub fn dod(&self) -> f64 {
        qf(&self.dod_q())
    }
    /// exact generalised degree of divergence of a subset
    pub fn omega_q(&self, mask: usize) -> Q {
        if mask == 0 {
            return qi(1);
        }
        let w = self.wsum_q(mask) - qi((self.loops(mask) * self.d) as i64) / qi(2);
        if self.spanning(mask) {
            w - self.dod_q()
        } else {
            w
        }
    }
    pub fn entry(&self, mask: usize) -> RefEntry {
        RefEntry { loops: self.loops(mask), spanning: self.spanning(mask), omega: self.omega_q(mask) }
    }
    /// fast f64 reference table (used by generators; never by a deciding comparison)
    pub fn table_f64(&self) -> Vec<(usize, bool, f64)> {
        let full = self.full();
        let dod = self.dod();
        (0..=full)
            .map(|m| {
                if m == 0 {
                    return (0, false, 1.0);
                }
                let l = self.loops(m);
                let sp = self.spanning(m);
                let w: f64 = (0..self.nedges()).filter(|e| m >> e & 1 == 1).map(|e| self.weights[e]).sum::<f64>() - (l * self.d) as f64 / 2.0;
                (l, sp, if sp { w - dod } else { w })
            })
            .collect()
    }
    /// min over proper non-empty subsets of omega (f64 estimate)
    pub fn min_proper_omega(&self) -> f64 {
        let t = self.table_f64();
        let full = self.full();
        (1..full).map(|m| t[m].2).fold(f64::INFINITY, f64::min)
    }
    pub fn accepted_f64(&self) -> bool {
        self.nedges() >= 1 && self.min_proper_omega() > 0.0
    }
    pub fn num_loops(&self) -> usize {
        self.loops(self.full())
    }
    pub fn is_connected(&self) -> bool {
        let mut p: Vec<usize> = (0..256).collect();
        let mut touched = [false; 256];
        for &(a, b) in &self.edges {
            touched[a as usize] = true;
            touched[b as usize] = true;
            let (ra, rb) = (find(&mut p, a as usize), find(&mut p, b as usize));
            if ra != rb {
                p[ra] = rb;
            }
        }
        (0..256).filter(|&v| touched[v] && find(&mut p, v) == v).count() == 1
    }
    pub fn to_momtrop(&self) -> momtrop::Graph {
        momtrop::Graph {
            edges: (0..self.nedges()).map(|e| momtrop::Edge { vertices: self.edges[e], is_massive: self.massive[e], weight: self.weights[e] }).collect(),
            externals: self.externals.clone(),
        }
    }
    /// reference J function in f64 (own recursion, bottom-up), given an omega table
    pub fn j_f64(&self, omega: &[f64]) -> Vec<f64> {
        let n = 1usize << self.nedges();
        let mut j = vec![0.0; n];
        j[0] = 1.0;
        for m in 1..n {
            let mut s = 0.0;
            for e in 0..self.nedges() {
                if m >> e & 1 == 1 {
                    let w = m ^ (1 << e);
                    s += j[w] / omega[w];
                }
            }
            j[m] = s;
        }
        j
    }
}
