//! R-J: exact J function on the exact values of a table's omegas.
use super::graph::{q, Q};
use num::{One, Zero};

/// J by the recursion, bottom-up over all subsets. `omega[m]` are the f64 table entries.
pub fn j_exact(ne: usize, omega: &[f64]) -> Vec<Q> {
    let n = 1usize << ne;
    let om: Vec<Q> = omega.iter().map(|&x| q(x)).collect();
    let mut j = vec![Q::zero(); n];
    j[0] = Q::one();
    for m in 1..n {
        let mut s = Q::zero();
        for e in 0..ne {
            if m >> e & 1 == 1 {
                let w = m ^ (1 << e);
                s += &j[w] / &om[w];
            }
        }
        j[m] = s;
    }
    j
}

/// J(full) as the sum over all E! removal orders of prod 1/omega(g_j) (independent route, E <= 8)
pub fn j_full_by_orderings(ne: usize, omega: &[f64]) -> Q {
    let om: Vec<Q> = omega.iter().map(|&x| q(x)).collect();
    fn rec(mask: usize, ne: usize, om: &[Q], acc: &Q, total: &mut Q) {
        if mask == 0 {
            *total += acc;
            return;
        }
        for e in 0..ne {
            if mask >> e & 1 == 1 {
                let w = mask ^ (1 << e);
                let a = acc / &om[w];
                rec(w, ne, om, &a, total);
            }
        }
    }
    let mut total = Q::zero();
    rec((1usize << ne) - 1, ne, &om, &Q::one(), &mut total);
    total
}
