pub mod gamma;
pub mod graph;
pub mod jfun;
pub mod lin;
pub mod path;
pub mod sym;
pub mod posfmt;
