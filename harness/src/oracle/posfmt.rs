//! A minimal positional (non-self-describing) serde format, in the manner of bincode/postcard: struct fields are written
//! in declaration order without names, sequences and maps with a length prefix, enum variants by index; nothing
//! tells the reader what comes next, so `deserialize_any` is an error. Used as a third wire format for the serde
//! round trip (C18): attributes that only work with self-describing formats (a field skipped on output, a field
//! order that differs between the two directions) survive JSON and break here.
use serde::de::{self, DeserializeSeed, EnumAccess, MapAccess, SeqAccess, VariantAccess, Visitor};
use serde::ser::{self, Serialize};
use std::fmt;

#[derive(Clone, Debug, PartialEq)]
pub enum Tok {
    Bool(bool),
    I(i64),
    U(u64),
    F(u64),
    F32(u32),
    Char(char),
    Str(String),
    Bytes(Vec<u8>),
    None,
    Some,
    Unit,
    Len(usize),
    Variant(u32),
}

#[derive(Debug)]
pub struct Error(pub String);
impl fmt::Display for Error {
    fn fmt(&self, f: &mut fmt::Formatter) -> fmt::Result {
        write!(f, "{}", self.0)
    }
}
impl std::error::Error for Error {}
impl ser::Error for Error {
    fn custom<T: fmt::Display>(m: T) -> Self {
        Error(m.to_string())
    }
}
impl de::Error for Error {
    fn custom<T: fmt::Display>(m: T) -> Self {
        Error(m.to_string())
    }
}

pub fn to_tokens<T: Serialize>(v: &T) -> Result<Vec<Tok>, Error> {
    let mut s = Ser { out: vec![] };
    v.serialize(&mut s)?;
    Ok(s.out)
}
pub fn from_tokens<'a, T: de::Deserialize<'a>>(t: &'a [Tok]) -> Result<T, Error> {
    let mut d = De { t, pos: 0 };
    let v = T::deserialize(&mut d)?;
    if d.pos != t.len() {
        return Err(Error(format!("{} trailing tokens", t.len() - d.pos)));
    }
    Ok(v)
}

pub struct Ser {
    out: Vec<Tok>,
}
macro_rules! put {
    ($name:ident, $ty:ty, $e:expr) => {
        fn $name(self, v: $ty) -> Result<(), Error> {
            self.out.push($e(v));
            Ok(())
        }
    };
}
impl<'a> ser::Serializer for &'a mut Ser {
    type Ok = ();
    type Error = Error;
    type SerializeSeq = Self;
    type SerializeTuple = Self;
    type SerializeTupleStruct = Self;
    type SerializeTupleVariant = Self;
    type SerializeMap = Self;
    type SerializeStruct = Self;
    type SerializeStructVariant = Self;
    put!(serialize_bool, bool, Tok::Bool);
    put!(serialize_i8, i8, |v| Tok::I(v as i64));
    put!(serialize_i16, i16, |v| Tok::I(v as i64));
    put!(serialize_i32, i32, |v| Tok::I(v as i64));
    put!(serialize_i64, i64, Tok::I);
    put!(serialize_u8, u8, |v| Tok::U(v as u64));
    put!(serialize_u16, u16, |v| Tok::U(v as u64));
    put!(serialize_u32, u32, |v| Tok::U(v as u64));
    put!(serialize_u64, u64, Tok::U);
    put!(serialize_f32, f32, |v: f32| Tok::F32(v.to_bits()));
    put!(serialize_f64, f64, |v: f64| Tok::F(v.to_bits()));
    put!(serialize_char, char, Tok::Char);
    fn serialize_str(self, v: &str) -> Result<(), Error> {
        self.out.push(Tok::Str(v.to_string()));
        Ok(())
    }
    fn serialize_bytes(self, v: &[u8]) -> Result<(), Error> {
        self.out.push(Tok::Bytes(v.to_vec()));
        Ok(())
    }
    fn serialize_none(self) -> Result<(), Error> {
        self.out.push(Tok::None);
        Ok(())
    }
    fn serialize_some<T: ?Sized + Serialize>(self, v: &T) -> Result<(), Error> {
        self.out.push(Tok::Some);
        v.serialize(self)
    }
    fn serialize_unit(self) -> Result<(), Error> {
        self.out.push(Tok::Unit);
        Ok(())
    }
    fn serialize_unit_struct(self, _: &'static str) -> Result<(), Error> {
        self.out.push(Tok::Unit);
        Ok(())
    }
    fn serialize_unit_variant(self, _: &'static str, idx: u32, _: &'static str) -> Result<(), Error> {
        self.out.push(Tok::Variant(idx));
        Ok(())
    }
    fn serialize_newtype_struct<T: ?Sized + Serialize>(self, _: &'static str, v: &T) -> Result<(), Error> {
        v.serialize(self)
    }
    fn serialize_newtype_variant<T: ?Sized + Serialize>(self, _: &'static str, idx: u32, _: &'static str, v: &T) -> Result<(), Error> {
        self.out.push(Tok::Variant(idx));
        v.serialize(self)
    }
    fn serialize_seq(self, len: Option<usize>) -> Result<Self, Error> {
        let n = len.ok_or_else(|| Error("sequence of unknown length".into()))?;
        self.out.push(Tok::Len(n));
        Ok(self)
    }
    fn serialize_tuple(self, _: usize) -> Result<Self, Error> {
        Ok(self)
    }
    fn serialize_tuple_struct(self, _: &'static str, _: usize) -> Result<Self, Error> {
        Ok(self)
    }
    fn serialize_tuple_variant(self, _: &'static str, idx: u32, _: &'static str, _: usize) -> Result<Self, Error> {
        self.out.push(Tok::Variant(idx));
        Ok(self)
    }
    fn serialize_map(self, len: Option<usize>) -> Result<Self, Error> {
        let n = len.ok_or_else(|| Error("map of unknown length".into()))?;
        self.out.push(Tok::Len(n));
        Ok(self)
    }
    fn serialize_struct(self, _: &'static str, _: usize) -> Result<Self, Error> {
        Ok(self)
    }
    fn serialize_struct_variant(self, _: &'static str, idx: u32, _: &'static str, _: usize) -> Result<Self, Error> {
        self.out.push(Tok::Variant(idx));
        Ok(self)
    }
    fn is_human_readable(&self) -> bool {
        false
    }
}
macro_rules! elems {
    ($tr:ident, $f:ident) => {
        impl<'a> ser::$tr for &'a mut Ser {
            type Ok = ();
            type Error = Error;
            fn $f<T: ?Sized + Serialize>(&mut self, v: &T) -> Result<(), Error> {
                v.serialize(&mut **self)
            }
            fn end(self) -> Result<(), Error> {
                Ok(())
            }
        }
    };
}
elems!(SerializeSeq, serialize_element);
elems!(SerializeTuple, serialize_element);
elems!(SerializeTupleStruct, serialize_field);
elems!(SerializeTupleVariant, serialize_field);
impl<'a> ser::SerializeMap for &'a mut Ser {
    type Ok = ();
    type Error = Error;
    fn serialize_key<T: ?Sized + Serialize>(&mut self, k: &T) -> Result<(), Error> {
        k.serialize(&mut **self)
    }
    fn serialize_value<T: ?Sized + Serialize>(&mut self, v: &T) -> Result<(), Error> {
        v.serialize(&mut **self)
    }
    fn end(self) -> Result<(), Error> {
        Ok(())
    }
}
impl<'a> ser::SerializeStruct for &'a mut Ser {
    type Ok = ();
    type Error = Error;
    fn serialize_field<T: ?Sized + Serialize>(&mut self, _: &'static str, v: &T) -> Result<(), Error> {
        v.serialize(&mut **self)
    }
    fn end(self) -> Result<(), Error> {
        Ok(())
    }
}
impl<'a> ser::SerializeStructVariant for &'a mut Ser {
    type Ok = ();
    type Error = Error;
    fn serialize_field<T: ?Sized + Serialize>(&mut self, _: &'static str, v: &T) -> Result<(), Error> {
        v.serialize(&mut **self)
    }
    fn end(self) -> Result<(), Error> {
        Ok(())
    }
}

pub struct De<'a> {
    t: &'a [Tok],
    pos: usize,
}
impl<'a> De<'a> {
    fn next(&mut self) -> Result<&'a Tok, Error> {
        let t = self.t.get(self.pos).ok_or_else(|| Error("unexpected end of input".into()))?;
        self.pos += 1;
        Ok(t)
    }
    fn bad<T>(&self, want: &str, got: &Tok) -> Result<T, Error> {
        Err(Error(format!("expected {want} at token {}, found {got:?}", self.pos - 1)))
    }
}
macro_rules! get_int {
    ($name:ident, $visit:ident, $ty:ty) => {
        fn $name<V: Visitor<'de>>(self, v: V) -> Result<V::Value, Error> {
            match self.next()? {
                Tok::I(x) => v.$visit(*x as $ty),
                Tok::U(x) => v.$visit(*x as $ty),
                t => self.bad("an integer", t),
            }
        }
    };
}
impl<'de, 'a> de::Deserializer<'de> for &'a mut De<'de> {
    type Error = Error;
    fn deserialize_any<V: Visitor<'de>>(self, _: V) -> Result<V::Value, Error> {
        Err(Error("the positional format is not self-describing (deserialize_any)".into()))
    }
    fn deserialize_bool<V: Visitor<'de>>(self, v: V) -> Result<V::Value, Error> {
        match self.next()? {
            Tok::Bool(b) => v.visit_bool(*b),
            t => self.bad("a bool", t),
        }
    }
    get_int!(deserialize_i8, visit_i8, i8);
    get_int!(deserialize_i16, visit_i16, i16);
    get_int!(deserialize_i32, visit_i32, i32);
    get_int!(deserialize_i64, visit_i64, i64);
    get_int!(deserialize_u8, visit_u8, u8);
    get_int!(deserialize_u16, visit_u16, u16);
    get_int!(deserialize_u32, visit_u32, u32);
    get_int!(deserialize_u64, visit_u64, u64);
    fn deserialize_f32<V: Visitor<'de>>(self, v: V) -> Result<V::Value, Error> {
        match self.next()? {
            Tok::F32(b) => v.visit_f32(f32::from_bits(*b)),
            t => self.bad("an f32", t),
        }
    }
    fn deserialize_f64<V: Visitor<'de>>(self, v: V) -> Result<V::Value, Error> {
        match self.next()? {
            Tok::F(b) => v.visit_f64(f64::from_bits(*b)),
            t => self.bad("an f64", t),
        }
    }
    fn deserialize_char<V: Visitor<'de>>(self, v: V) -> Result<V::Value, Error> {
        match self.next()? {
            Tok::Char(c) => v.visit_char(*c),
            t => self.bad("a char", t),
        }
    }
    fn deserialize_str<V: Visitor<'de>>(self, v: V) -> Result<V::Value, Error> {
        match self.next()? {
            Tok::Str(s) => v.visit_borrowed_str(s),
            t => self.bad("a string", t),
        }
    }
    fn deserialize_string<V: Visitor<'de>>(self, v: V) -> Result<V::Value, Error> {
        self.deserialize_str(v)
    }
    fn deserialize_bytes<V: Visitor<'de>>(self, v: V) -> Result<V::Value, Error> {
        match self.next()? {
            Tok::Bytes(b) => v.visit_borrowed_bytes(b),
            t => self.bad("bytes", t),
        }
    }
    fn deserialize_byte_buf<V: Visitor<'de>>(self, v: V) -> Result<V::Value, Error> {
        self.deserialize_bytes(v)
    }
    fn deserialize_option<V: Visitor<'de>>(self, v: V) -> Result<V::Value, Error> {
        match self.next()? {
            Tok::None => v.visit_none(),
            Tok::Some => v.visit_some(self),
            t => self.bad("an option", t),
        }
    }
    fn deserialize_unit<V: Visitor<'de>>(self, v: V) -> Result<V::Value, Error> {
        match self.next()? {
            Tok::Unit => v.visit_unit(),
            t => self.bad("unit", t),
        }
    }
    fn deserialize_unit_struct<V: Visitor<'de>>(self, _: &'static str, v: V) -> Result<V::Value, Error> {
        self.deserialize_unit(v)
    }
    fn deserialize_newtype_struct<V: Visitor<'de>>(self, _: &'static str, v: V) -> Result<V::Value, Error> {
        v.visit_newtype_struct(self)
    }
    fn deserialize_seq<V: Visitor<'de>>(self, v: V) -> Result<V::Value, Error> {
        match self.next()? {
            Tok::Len(n) => v.visit_seq(Counted { de: self, left: *n }),
            t => self.bad("a sequence length", t),
        }
    }
    fn deserialize_tuple<V: Visitor<'de>>(self, len: usize, v: V) -> Result<V::Value, Error> {
        v.visit_seq(Counted { de: self, left: len })
    }
    fn deserialize_tuple_struct<V: Visitor<'de>>(self, _: &'static str, len: usize, v: V) -> Result<V::Value, Error> {
        v.visit_seq(Counted { de: self, left: len })
    }
    fn deserialize_map<V: Visitor<'de>>(self, v: V) -> Result<V::Value, Error> {
        match self.next()? {
            Tok::Len(n) => v.visit_map(Counted { de: self, left: *n }),
            t => self.bad("a map length", t),
        }
    }
    fn deserialize_struct<V: Visitor<'de>>(self, _: &'static str, fields: &'static [&'static str], v: V) -> Result<V::Value, Error> {
        v.visit_seq(Counted { de: self, left: fields.len() })
    }
    fn deserialize_enum<V: Visitor<'de>>(self, _: &'static str, _: &'static [&'static str], v: V) -> Result<V::Value, Error> {
        v.visit_enum(self)
    }
    fn deserialize_identifier<V: Visitor<'de>>(self, _: V) -> Result<V::Value, Error> {
        Err(Error("the positional format carries no field names (deserialize_identifier)".into()))
    }
    fn deserialize_ignored_any<V: Visitor<'de>>(self, _: V) -> Result<V::Value, Error> {
        Err(Error("the positional format cannot skip a value of unknown shape".into()))
    }
    fn is_human_readable(&self) -> bool {
        false
    }
}
struct Counted<'a, 'de> {
    de: &'a mut De<'de>,
    left: usize,
}
impl<'a, 'de> SeqAccess<'de> for Counted<'a, 'de> {
    type Error = Error;
    fn next_element_seed<T: DeserializeSeed<'de>>(&mut self, seed: T) -> Result<Option<T::Value>, Error> {
        if self.left == 0 {
            return Ok(None);
        }
        self.left -= 1;
        seed.deserialize(&mut *self.de).map(Some)
    }
    fn size_hint(&self) -> Option<usize> {
        Some(self.left)
    }
}
impl<'a, 'de> MapAccess<'de> for Counted<'a, 'de> {
    type Error = Error;
    fn next_key_seed<K: DeserializeSeed<'de>>(&mut self, seed: K) -> Result<Option<K::Value>, Error> {
        if self.left == 0 {
            return Ok(None);
        }
        self.left -= 1;
        seed.deserialize(&mut *self.de).map(Some)
    }
    fn next_value_seed<V: DeserializeSeed<'de>>(&mut self, seed: V) -> Result<V::Value, Error> {
        seed.deserialize(&mut *self.de)
    }
}
impl<'a, 'de> EnumAccess<'de> for &'a mut De<'de> {
    type Error = Error;
    type Variant = Self;
    fn variant_seed<V: DeserializeSeed<'de>>(self, seed: V) -> Result<(V::Value, Self), Error> {
        let idx = match self.next()? {
            Tok::Variant(i) => *i,
            t => return self.bad("a variant index", t),
        };
        let v = seed.deserialize(de::value::U32Deserializer::<Error>::new(idx))?;
        Ok((v, self))
    }
}
impl<'a, 'de> VariantAccess<'de> for &'a mut De<'de> {
    type Error = Error;
    fn unit_variant(self) -> Result<(), Error> {
        Ok(())
    }
    fn newtype_variant_seed<T: DeserializeSeed<'de>>(self, seed: T) -> Result<T::Value, Error> {
        seed.deserialize(self)
    }
    fn tuple_variant<V: Visitor<'de>>(self, len: usize, v: V) -> Result<V::Value, Error> {
        v.visit_seq(Counted { de: self, left: len })
    }
    fn struct_variant<V: Visitor<'de>>(self, fields: &'static [&'static str], v: V) -> Result<V::Value, Error> {
        v.visit_seq(Counted { de: self, left: fields.len() })
    }
}

#[cfg(test)]
mod tests {
    use super::*;
    use serde::{Deserialize, Serialize};
    #[derive(Serialize, Deserialize, PartialEq, Debug)]
    enum E {
        A,
        B(u8, f64),
        C { x: Vec<i32> },
    }
    #[derive(Serialize, Deserialize, PartialEq, Debug)]
    struct S {
        a: u8,
        b: Option<f64>,
        c: Vec<(u8, bool)>,
        d: E,
        e: String,
    }
    #[test]
    fn roundtrip() {
        for d in [E::A, E::B(3, -0.0), E::C { x: vec![1, -2] }] {
            let s = S { a: 7, b: Some(f64::MIN_POSITIVE), c: vec![(1, true), (2, false)], d, e: "x".into() };
            let t = to_tokens(&s).unwrap();
            let back: S = from_tokens(&t).unwrap();
            assert_eq!(s, back);
        }
    }
}
