//! R-lin: exact rational linear algebra (Gauss–Jordan), Frobenius norms.
use super::graph::{qf, Q};
use num::{One, Signed, Zero};

pub type QMat = Vec<Vec<Q>>;

/// (determinant, inverse); None if singular
pub fn det_inv(a: &QMat) -> Option<(Q, QMat)> {
    let n = a.len();
    let mut m: Vec<Vec<Q>> = a
        .iter()
        .enumerate()
        .map(|(i, r)| {
            let mut r = r.clone();
            for j in 0..n {
                r.push(if i == j { Q::one() } else { Q::zero() });
            }
            r
        })
        .collect();
    let mut det = Q::one();
    for c in 0..n {
        let p = (c..n).find(|&r| !m[r][c].is_zero())?;
        if p != c {
            m.swap(p, c);
            det = -det;
        }
        let piv = m[c][c].clone();
        det = det * piv.clone();
        for j in 0..2 * n {
            m[c][j] = m[c][j].clone() / piv.clone();
        }
        for r in 0..n {
            if r != c && !m[r][c].is_zero() {
                let f = m[r][c].clone();
                for j in 0..2 * n {
                    let t = m[c][j].clone() * f.clone();
                    m[r][j] = m[r][j].clone() - t;
                }
            }
        }
    }
    Some((det, m.into_iter().map(|r| r[n..].to_vec()).collect()))
}
/// determinant only (works for singular matrices too)
pub fn det(a: &QMat) -> Q {
    let n = a.len();
    let mut m = a.clone();
    let mut det = Q::one();
    for c in 0..n {
        let Some(p) = (c..n).find(|&r| !m[r][c].is_zero()) else { return Q::zero() };
        if p != c {
            m.swap(p, c);
            det = -det;
        }
        let piv = m[c][c].clone();
        det = det * piv.clone();
        for r in c + 1..n {
            if !m[r][c].is_zero() {
                let f = m[r][c].clone() / piv.clone();
                for j in c..n {
                    let t = m[c][j].clone() * f.clone();
                    m[r][j] = m[r][j].clone() - t;
                }
            }
        }
    }
    det
}
/// Euclidean norm that neither overflows nor underflows while squaring (scaled by the largest entry)
pub fn norm2(v: &[f64]) -> f64 {
    let m = v.iter().fold(0.0f64, |a, x| a.max(x.abs()));
    if m == 0.0 || !m.is_finite() {
        return m;
    }
    m * v.iter().map(|x| (x / m) * (x / m)).sum::<f64>().sqrt()
}
pub fn fro(a: &QMat) -> f64 {
    let v: Vec<f64> = a.iter().flatten().map(|x| qf(&x.abs())).collect();
    norm2(&v)
}
pub fn matmul(a: &QMat, b: &QMat) -> QMat {
    let n = a.len();
    let m = b[0].len();
    let k = b.len();
    (0..n).map(|i| (0..m).map(|j| (0..k).fold(Q::zero(), |acc, l| acc + &a[i][l] * &b[l][j])).collect()).collect()
}
pub fn transpose(a: &QMat) -> QMat {
    let n = a.len();
    let m = a[0].len();
    (0..m).map(|j| (0..n).map(|i| a[i][j].clone()).collect()).collect()
}
pub fn identity(n: usize) -> QMat {
    (0..n).map(|i| (0..n).map(|j| if i == j { Q::one() } else { Q::zero() }).collect()).collect()
}
pub fn sub(a: &QMat, b: &QMat) -> QMat {
    a.iter().zip(b).map(|(r, s)| r.iter().zip(s).map(|(x, y)| x - y).collect()).collect()
}
pub fn from_f64(a: &[Vec<f64>]) -> Option<QMat> {
    let mut out = vec![];
    for r in a {
        let mut row = vec![];
        for &x in r {
            if !x.is_finite() {
                return None;
            }
            row.push(super::graph::q(x));
        }
        out.push(row);
    }
    Some(out)
}
/// is the exact symmetric matrix positive definite (all leading principal minors > 0)
pub fn is_spd(a: &QMat) -> bool {
    let n = a.len();
    for k in 1..=n {
        let sub: QMat = (0..k).map(|i| a[i][..k].to_vec()).collect();
        if !det(&sub).is_positive() {
            return false;
        }
    }
    true
}
/// L_{2,1} norm (sum of column 2-norms) as f64 of an exact matrix
pub fn l21(a: &QMat) -> f64 {
    let n = a.len();
    let m = a[0].len();
    (0..m).map(|j| norm2(&(0..n).map(|i| qf(&a[i][j])).collect::<Vec<_>>())).sum()
}
