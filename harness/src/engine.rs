//! Engine: drives proptest `TestRunner`s over a choice tape, collects statistics, shrinks failures,
//! writes replay files and evidence, honours the known-findings file.
use proptest::strategy::{Strategy, ValueTree};
use proptest::test_runner::{Config, RngAlgorithm, TestCaseError, TestError, TestRng, TestRunner};
use serde::de::DeserializeOwned;
use serde::Serialize;
use serde_json::{json, Value};
use std::cell::RefCell;
use std::collections::{BTreeMap, HashSet};
use std::hash::{Hash, Hasher};
use std::io::Write;
use std::panic::{catch_unwind, AssertUnwindSafe};
use std::sync::Mutex;
use std::time::Instant;

#[derive(Clone, Copy, Debug, PartialEq, Eq)]
pub enum Tier {
    Quick,
    Thorough,
}
impl Tier {
    pub fn name(&self) -> &'static str {
        match self {
            Tier::Quick => "quick",
            Tier::Thorough => "thorough",
        }
    }
    pub fn pick<T>(&self, q: T, t: T) -> T {
        match self {
            Tier::Quick => q,
            Tier::Thorough => t,
        }
    }
}

/// A violation of the property on one case.
#[derive(Clone, Debug)]
pub struct Failure {
    /// short stable key: which assertion failed (+ what kind of input); used for known-finding matching and de-duplication
    pub signature: String,
    pub message: String,
}
impl Failure {
    pub fn new(sig: impl Into<String>, msg: impl Into<String>) -> Failure {
        Failure { signature: sig.into(), message: msg.into() }
    }
}
#[macro_export]
macro_rules! fail {
    ($sig:expr, $($arg:tt)*) => { return Err($crate::engine::Failure::new($sig, format!($($arg)*))) };
}

/// The choice tape: every random decision of a generator is read from here, so proptest owns all
/// randomness (shrinking = making tape entries smaller; an exhausted tape yields 0 = simplest choice).
pub struct Tape<'a> {
    data: &'a [u64],
    pos: usize,
}
impl<'a> Tape<'a> {
    pub fn new(data: &'a [u64]) -> Self {
        Tape { data, pos: 0 }
    }
    pub fn next(&mut self) -> u64 {
        let v = self.data.get(self.pos).copied().unwrap_or(0);
        self.pos += 1;
        v
    }
    /// uniform in 0..n, monotone in the tape value
    pub fn below(&mut self, n: usize) -> usize {
        if n <= 1 {
            self.pos += 1;
            return 0;
        }
        ((self.next() as u128 * n as u128) >> 64) as usize
    }
    pub fn range(&mut self, lo: usize, hi_incl: usize) -> usize {
        lo + self.below(hi_incl - lo + 1)
    }
    /// uniform in [0,1) on the 2^-53 grid
    pub fn unit(&mut self) -> f64 {
        (self.next() >> 11) as f64 * (1.0 / 9007199254740992.0)
    }
    pub fn uniform(&mut self, lo: f64, hi: f64) -> f64 {
        lo + (hi - lo) * self.unit()
    }
    /// true with probability p; the simplest tape (0) gives false
    pub fn chance(&mut self, p: f64) -> bool {
        self.unit() >= 1.0 - p
    }
    pub fn bool(&mut self) -> bool {
        self.next() >> 63 == 1
    }
    pub fn pick<'b, T>(&mut self, xs: &'b [T]) -> &'b T {
        &xs[self.below(xs.len())]
    }
    /// index chosen with the given weights; monotone
    pub fn weighted(&mut self, w: &[f64]) -> usize {
        let tot: f64 = w.iter().sum();
        let r = self.unit() * tot;
        let mut acc = 0.0;
        for (i, x) in w.iter().enumerate() {
            acc += x;
            if r < acc {
                return i;
            }
        }
        w.len() - 1
    }
    pub fn consumed(&self) -> usize {
        self.pos
    }
}

/// per-case recorder handed to `check`
#[derive(Default)]
pub struct Ctx {
    pub labels: Vec<String>,
    pub nontrivial: bool,
    pub counters: Vec<(String, u64)>,
    pub maxima: Vec<(String, f64)>,
    pub replay: bool,
}
impl Ctx {
    pub fn label(&mut self, s: impl Into<String>) {
        self.labels.push(s.into());
    }
    pub fn nontrivial(&mut self) {
        self.nontrivial = true;
    }
    pub fn count(&mut self, s: impl Into<String>, n: u64) {
        self.counters.push((s.into(), n));
    }
    /// track the maximum of a measured quantity (e.g. error / tolerance ratio) over the run
    pub fn max(&mut self, s: impl Into<String>, v: f64) {
        self.maxima.push((s.into(), v));
    }
}

#[derive(Default)]
pub struct Stats {
    pub evaluations: u64,
    pub gen_rejected: u64,
    pub nontrivial: HashSet<u64>,
    pub labels: BTreeMap<String, u64>,
    pub counters: BTreeMap<String, u64>,
    pub maxima: BTreeMap<String, f64>,
    pub samples: Vec<Value>,
    pub known_hits: BTreeMap<String, u64>,
    pub failures: Vec<(Failure, Value)>,
    pub harness_panics: Vec<String>,
}
impl Stats {
    pub fn merge(&mut self, o: Stats) {
        self.evaluations += o.evaluations;
        self.gen_rejected += o.gen_rejected;
        self.nontrivial.extend(o.nontrivial);
        for (k, v) in o.labels {
            *self.labels.entry(k).or_default() += v;
        }
        for (k, v) in o.counters {
            *self.counters.entry(k).or_default() += v;
        }
        for (k, v) in o.maxima {
            let e = self.maxima.entry(k).or_insert(f64::NEG_INFINITY);
            if v > *e || v.is_nan() {
                *e = v;
            }
        }
        for s in o.samples {
            if self.samples.len() < 5 {
                self.samples.push(s);
            }
        }
        for (k, v) in o.known_hits {
            *self.known_hits.entry(k).or_default() += v;
        }
        self.failures.extend(o.failures);
        self.harness_panics.extend(o.harness_panics);
    }
    pub fn absorb_ctx(&mut self, ctx: Ctx, case_json: &Value) {
        for l in ctx.labels {
            *self.labels.entry(l).or_default() += 1;
        }
        for (k, v) in ctx.counters {
            *self.counters.entry(k).or_default() += v;
        }
        for (k, v) in ctx.maxima {
            let e = self.maxima.entry(k).or_insert(f64::NEG_INFINITY);
            if v > *e || v.is_nan() {
                *e = v;
            }
        }
        if ctx.nontrivial {
            let mut h = std::collections::hash_map::DefaultHasher::new();
            case_json.to_string().hash(&mut h);
            let fresh = self.nontrivial.insert(h.finish());
            if fresh && self.samples.len() < 3 {
                self.samples.push(case_json.clone());
            }
        }
    }
}

pub struct Spec<C> {
    pub id: &'static str,
    pub rule: &'static str,
    pub tape_len: usize,
    pub cases: u32,
    pub gen: fn(&mut Tape, Tier) -> Option<C>,
    pub check: fn(&C, &mut Ctx) -> Result<(), Failure>,
    pub max_shrink_iters: u32,
    pub shards: usize,
}

// ---------------------------------------------------------------- known findings
#[derive(Clone, Debug, serde::Deserialize)]
pub struct KnownEntry {
    pub status: String, // "fixed" | "known"
    pub property: String,
    #[serde(default)]
    pub commit: String,
    /// exact failure signature this entry is keyed on (only used for status == "known")
    #[serde(default)]
    pub signature: String,
    pub what: String,
}
pub fn verif_root() -> std::path::PathBuf {
    std::env::var("VERIF_ROOT").map(Into::into).unwrap_or_else(|_| "/verif".into())
}
pub fn load_known() -> Vec<KnownEntry> {
    let p = verif_root().join("known_findings.json");
    match std::fs::read_to_string(&p) {
        Ok(s) => serde_json::from_str::<Vec<KnownEntry>>(&s).unwrap_or_else(|e| {
            eprintln!("cannot parse {}: {e}", p.display());
            std::process::exit(2)
        }),
        Err(_) => vec![],
    }
}
pub fn known_match<'a>(known: &'a [KnownEntry], id: &str, f: &Failure) -> Option<&'a KnownEntry> {
    known.iter().find(|k| k.status == "known" && k.property == id && k.signature == f.signature)
}

// ---------------------------------------------------------------- output channel (stdout of the SUT is silenced)
static OUT: Mutex<Option<std::fs::File>> = Mutex::new(None);
/// redirect fd 1 to /dev/null (momtrop prints debug text there) and keep the original for our own report lines
pub fn capture_stdout() {
    use std::os::unix::io::FromRawFd;
    unsafe {
        let saved = libc::dup(1);
        let devnull = libc::open(b"/dev/null\0".as_ptr() as *const libc::c_char, libc::O_WRONLY);
        libc::dup2(devnull, 1);
        libc::close(devnull);
        *OUT.lock().unwrap() = Some(std::fs::File::from_raw_fd(saved));
    }
}
pub fn say(line: &str) {
    let mut g = OUT.lock().unwrap();
    match g.as_mut() {
        Some(f) => {
            let _ = writeln!(f, "{line}");
            let _ = f.flush();
        }
        None => println!("{line}"),
    }
}

thread_local! {
    pub static LAST_PANIC: RefCell<String> = RefCell::new(String::new());
}
pub fn install_panic_hook() {
    std::panic::set_hook(Box::new(|info| {
        let msg = if let Some(s) = info.payload().downcast_ref::<&str>() {
            s.to_string()
        } else if let Some(s) = info.payload().downcast_ref::<String>() {
            s.clone()
        } else {
            "<non-string panic>".to_string()
        };
        let loc = info.location().map(|l| format!("{}:{}", l.file(), l.line())).unwrap_or_default();
        LAST_PANIC.with(|p| *p.borrow_mut() = format!("{msg} @ {loc}"));
    }));
}
pub fn take_panic() -> String {
    LAST_PANIC.with(|p| std::mem::take(&mut *p.borrow_mut()))
}

pub fn seed_from_env() -> u64 {
    std::env::var("VERIF_SEED").ok().and_then(|s| s.trim().parse::<i128>().ok()).map(|v| v as u64).unwrap_or(0)
}

fn shard_rng(id: &str, seed: u64, shard: usize) -> TestRng {
    // splitmix-style mixing of (seed, shard, id) into 32 bytes
    let mut h = std::collections::hash_map::DefaultHasher::new();
    id.hash(&mut h);
    let mut s = seed ^ h.finish().rotate_left(17) ^ ((shard as u64 + 1).wrapping_mul(0x9E3779B97F4A7C15));
    let mut bytes = [0u8; 32];
    for chunk in bytes.chunks_mut(8) {
        s = s.wrapping_add(0x9E3779B97F4A7C15);
        let mut z = s;
        z = (z ^ (z >> 30)).wrapping_mul(0xBF58476D1CE4E5B9);
        z = (z ^ (z >> 27)).wrapping_mul(0x94D049BB133111EB);
        z ^= z >> 31;
        chunk.copy_from_slice(&z.to_le_bytes());
    }
    TestRng::from_seed(RngAlgorithm::ChaCha, &bytes)
}

/// deterministic tapes for auxiliary stages (drawn from proptest's own generator)
pub fn sample_tapes(id: &str, seed: u64, n: usize, len: usize) -> Vec<Vec<u64>> {
    let mut runner = TestRunner::new_with_rng(Config { failure_persistence: None, ..Config::default() }, shard_rng(id, seed, 0));
    let strategy = proptest::collection::vec(proptest::num::u64::ANY, len..=len);
    (0..n).map(|_| strategy.new_tree(&mut runner).expect("tape").current()).collect()
}

/// run one shard: returns its statistics (including at most one shrunk failure)
fn run_shard<C: Serialize + Clone + std::fmt::Debug>(spec: &Spec<C>, tier: Tier, seed: u64, shard: usize, cases: u32, known: &[KnownEntry]) -> Stats {
    let config = Config { cases, failure_persistence: None, max_shrink_iters: spec.max_shrink_iters, max_global_rejects: u32::MAX, ..Config::default() };
    let mut runner = TestRunner::new_with_rng(config, shard_rng(spec.id, seed, shard));
    let strategy = proptest::collection::vec(proptest::num::u64::ANY, spec.tape_len..=spec.tape_len);
    let stats = RefCell::new(Stats::default());
    let failed = RefCell::new(false);
    // the first failing observation of the shard (before any shrinking), kept for failures that depend on the call history
    let first_failure: RefCell<Option<(Failure, Value)>> = RefCell::new(None);
    let result = runner.run(&strategy, |tape_data| {
        let counting = !*failed.borrow();
        let mut tape = Tape::new(&tape_data);
        let case = match catch_unwind(AssertUnwindSafe(|| (spec.gen)(&mut tape, tier))) {
            Ok(Some(c)) => c,
            Ok(None) => {
                if counting {
                    stats.borrow_mut().gen_rejected += 1;
                }
                return Ok(());
            }
            Err(_) => {
                if counting {
                    stats.borrow_mut().harness_panics.push(format!("generator panicked: {}", take_panic()));
                }
                return Ok(());
            }
        };
        let mut ctx = Ctx::default();
        let r = catch_unwind(AssertUnwindSafe(|| (spec.check)(&case, &mut ctx)));
        match r {
            Err(_) => {
                if counting {
                    let cj = serde_json::to_value(&case).unwrap_or(Value::Null);
                    stats.borrow_mut().harness_panics.push(format!("check panicked: {} on case {}", take_panic(), cj));
                }
                Ok(())
            }
            Ok(Ok(())) => {
                if counting {
                    let cj = serde_json::to_value(&case).unwrap_or(Value::Null);
                    let mut s = stats.borrow_mut();
                    s.evaluations += 1;
                    s.absorb_ctx(ctx, &cj);
                }
                Ok(())
            }
            Ok(Err(f)) if f.signature == "bad-case" => {
                if counting {
                    let cj = serde_json::to_value(&case).unwrap_or(Value::Null);
                    stats.borrow_mut().harness_panics.push(format!("generator produced a case outside the property's domain: {} on {}", f.message, cj));
                }
                Ok(())
            }
            Ok(Err(f)) => {
                if let Some(k) = known_match(known, spec.id, &f) {
                    if counting {
                        let mut s = stats.borrow_mut();
                        s.evaluations += 1;
                        *s.known_hits.entry(k.what.clone()).or_default() += 1;
                    }
                    return Ok(());
                }
                if counting {
                    stats.borrow_mut().evaluations += 1;
                    *first_failure.borrow_mut() = Some((f.clone(), serde_json::to_value(&case).unwrap_or(Value::Null)));
                }
                *failed.borrow_mut() = true;
                Err(TestCaseError::fail(f.signature.clone()))
            }
        }
    });
    let mut stats = stats.into_inner();
    match result {
        Ok(()) => {}
        Err(TestError::Fail(_, minimal_tape)) => {
            let mut tape = Tape::new(&minimal_tape);
            if let Some(case) = (spec.gen)(&mut tape, tier) {
                let mut ctx = Ctx::default();
                if let Ok(Err(f)) = catch_unwind(AssertUnwindSafe(|| (spec.check)(&case, &mut ctx))) {
                    stats.failures.push((f, serde_json::to_value(&case).unwrap_or(Value::Null)));
                } else if let Some((f, cj)) = first_failure.borrow_mut().take() {
                    // Every check is a deterministic function of its case (no clock, no rng of its own): a case that failed
                    // inside the campaign and passes when evaluated again has been answered differently by the code
                    // under test for the same arguments, i.e. the earlier calls of this shard mattered. The observation
                    // is reported as it was made; the case alone does not reproduce it, the same seed does.
                    let f2 = Failure { signature: format!("{}:depends-on-call-history", f.signature), message: format!("{} [the same case passes when evaluated again in isolation: the outcome depended on the calls made before it on this thread; reproduce with VERIF_SEED={seed} ./check {} {}]", f.message, spec.id, if tier == Tier::Quick { "quick" } else { "thorough" }) };
                    stats.failures.push((f2, cj));
                } else {
                    stats.harness_panics.push("shrunk case no longer fails and the first failure was not recorded".into());
                }
            }
        }
        Err(TestError::Abort(r)) => stats.harness_panics.push(format!("proptest aborted: {r}")),
    }
    stats
}

pub struct RunOutcome {
    pub stats: Stats,
    pub wall_s: f64,
}

/// run the proptest campaign of a property on all shards
pub fn run_spec<C: Serialize + Clone + std::fmt::Debug + Send + Sync>(spec: &Spec<C>, tier: Tier, seed: u64) -> Stats {
    let known = load_known();
    let shards = spec.shards.max(1);
    let per = (spec.cases + shards as u32 - 1) / shards as u32;
    let mut total = Stats::default();
    std::thread::scope(|sc| {
        let hs: Vec<_> = (0..shards)
            .map(|sh| {
                let known = &known;
                std::thread::Builder::new().stack_size(64 << 20).spawn_scoped(sc, move || run_shard(spec, tier, seed, sh, per, known)).unwrap()
            })
            .collect();
        for h in hs {
            match h.join() {
                Ok(s) => total.merge(s),
                Err(_) => total.harness_panics.push("shard thread panicked".into()),
            }
        }
    });
    total
}

/// run committed regression cases (plain replays that bypass proptest) for a property
pub fn run_regressions<C: DeserializeOwned + Serialize>(id: &str, check: fn(&C, &mut Ctx) -> Result<(), Failure>, stats: &mut Stats) {
    let dir = verif_root().join("regress").join(id);
    let known = load_known();
    let Ok(rd) = std::fs::read_dir(&dir) else { return };
    let mut files: Vec<_> = rd.filter_map(|e| e.ok()).map(|e| e.path()).filter(|p| p.extension().map(|e| e == "json").unwrap_or(false)).collect();
    files.sort();
    for p in files {
        let Ok(txt) = std::fs::read_to_string(&p) else { continue };
        let v: Value = match serde_json::from_str(&txt) {
            Ok(v) => v,
            Err(e) => {
                stats.harness_panics.push(format!("bad regression file {}: {e}", p.display()));
                continue;
            }
        };
        let case: C = match serde_json::from_value(v["case"].clone()) {
            Ok(c) => c,
            Err(e) => {
                stats.harness_panics.push(format!("bad regression case {}: {e}", p.display()));
                continue;
            }
        };
        let mut ctx = Ctx::default();
        ctx.replay = true;
        match catch_unwind(AssertUnwindSafe(|| check(&case, &mut ctx))) {
            Ok(Ok(())) => {
                *stats.counters.entry("regression_cases_replayed".into()).or_default() += 1;
            }
            Ok(Err(f)) => {
                if let Some(k) = known_match(&known, id, &f) {
                    *stats.known_hits.entry(k.what.clone()).or_default() += 1;
                } else {
                    let f = Failure::new(f.signature, format!("[regression {}] {}", p.display(), f.message));
                    stats.failures.push((f, v["case"].clone()));
                }
            }
            Err(_) => stats.harness_panics.push(format!("regression {} panicked: {}", p.display(), take_panic())),
        }
    }
}

pub fn replay_file<C: DeserializeOwned>(id: &str, path: &str, check: fn(&C, &mut Ctx) -> Result<(), Failure>) -> i32 {
    let txt = match std::fs::read_to_string(path) {
        Ok(t) => t,
        Err(e) => {
            say(&format!("cannot read {path}: {e}"));
            return 2;
        }
    };
    let v: Value = match serde_json::from_str(&txt) {
        Ok(v) => v,
        Err(e) => {
            say(&format!("cannot parse {path}: {e}"));
            return 2;
        }
    };
    let case: C = match serde_json::from_value(v["case"].clone()) {
        Ok(c) => c,
        Err(e) => {
            say(&format!("replay file does not hold a {id} case: {e}"));
            return 2;
        }
    };
    let mut ctx = Ctx::default();
    ctx.replay = true;
    match catch_unwind(AssertUnwindSafe(|| check(&case, &mut ctx))) {
        Ok(Ok(())) => {
            say(&format!("replay {path}: property {id} holds on this case"));
            0
        }
        Ok(Err(f)) if f.signature == "bad-case" => {
            say(&format!("replay {path}: the case lies outside the domain of {id} ({}); nothing to decide", f.message));
            2
        }
        Ok(Err(f)) => {
            say(&format!("replay {path}: {} — {}", f.signature, f.message));
            say(&format!("VIOLATION property={id} replay={path}"));
            1
        }
        Err(_) => {
            say(&format!("replay {path}: harness panicked: {}", take_panic()));
            2
        }
    }
}

fn fnv(s: &str) -> u64 {
    let mut h: u64 = 0xcbf29ce484222325;
    for b in s.bytes() {
        h ^= b as u64;
        h = h.wrapping_mul(0x100000001b3);
    }
    h
}

/// write replay files, the evidence file, print report lines; returns the process exit code
pub fn finish(id: &str, tier: Tier, seed: u64, rule: &str, stats: Stats, t0: Instant, extra: Value, assumptions: &[&str]) -> i32 {
    let root = verif_root();
    let known = load_known();
    let mut exit = 0;
    // known findings
    for (what, n) in &stats.known_hits {
        say(&format!("KNOWN-FINDING: property={id} {what} (hit {n} times this run)"));
    }
    // failures, de-duplicated by signature
    let mut seen = HashSet::new();
    let mut nviol = 0;
    for (f, case) in &stats.failures {
        if !seen.insert(f.signature.clone()) {
            continue;
        }
        nviol += 1;
        let dir = root.join("replays").join(id);
        let _ = std::fs::create_dir_all(&dir);
        let body = json!({"property": id, "signature": f.signature, "message": f.message, "tier": tier.name(), "seed": seed, "case": case});
        let name = format!("{}-{:016x}.json", sanitize(&f.signature), fnv(&body["case"].to_string()));
        let path = dir.join(name);
        let _ = std::fs::write(&path, serde_json::to_string_pretty(&body).unwrap());
        say(&format!("violation detail: {} — {}", f.signature, truncate(&f.message, 1500)));
        say(&format!("VIOLATION property={id} replay={}", path.display()));
        exit = 1;
    }
    if !stats.harness_panics.is_empty() && exit == 0 {
        for p in stats.harness_panics.iter().take(5) {
            say(&format!("HARNESS-ERROR property={id} {}", truncate(p, 2000)));
        }
        exit = 2;
    }
    let fixed: Vec<String> = known.iter().filter(|k| k.property == id && k.status == "fixed").map(|k| format!("fixed: {} {}", k.commit, k.what)).collect();
    let mut coverage = json!({
        "evaluations": stats.evaluations,
        "distinct_nontrivial": stats.nontrivial.len(),
        "rule": rule,
        "samples": stats.samples,
        "class_histogram": stats.labels,
        "counters": stats.counters,
        "worst_ratios": stats.maxima.iter().map(|(k, v)| (k.clone(), json!(if v.is_finite() { *v } else { -1.0 }))).collect::<BTreeMap<_, _>>(),
        "generator_rejected": stats.gen_rejected,
        "known_findings_hit": stats.known_hits,
        "fixed_findings_rechecked": fixed,
        "exhaustive": false,
    });
    if let (Some(c), Some(e)) = (coverage.as_object_mut(), extra.as_object()) {
        for (k, v) in e {
            c.insert(k.clone(), v.clone());
        }
    }
    let ev = json!({
        "property_id": id,
        "tier": tier.name(),
        "seed": seed as i64,
        "level": "exploration",
        "coverage": coverage,
        "assumptions": assumptions,
        "wall_s": t0.elapsed().as_secs_f64(),
        "violations": nviol,
    });
    let evdir = root.join("evidence");
    let _ = std::fs::create_dir_all(&evdir);
    if let Err(e) = std::fs::write(evdir.join(format!("{id}.json")), serde_json::to_string_pretty(&ev).unwrap()) {
        say(&format!("HARNESS-ERROR cannot write evidence: {e}"));
        if exit == 0 {
            exit = 2;
        }
    }
    say(&format!(
        "{id} {}: evaluations={} distinct_nontrivial={} violations={} known_hits={} wall={:.1}s exit={exit}",
        tier.name(),
        stats.evaluations,
        stats.nontrivial.len(),
        nviol,
        stats.known_hits.values().sum::<u64>(),
        t0.elapsed().as_secs_f64()
    ));
    exit
}

fn sanitize(s: &str) -> String {
    s.chars().map(|c| if c.is_ascii_alphanumeric() || c == '-' || c == '_' { c } else { '_' }).take(60).collect()
}
pub fn truncate(s: &str, n: usize) -> String {
    if s.len() <= n {
        s.to_string()
    } else {
        let mut end = n;
        while !s.is_char_boundary(end) {
            end -= 1;
        }
        format!("{}…", &s[..end])
    }
}

