//! Thin wrappers around the code under test: build, sample, table extraction, log capture.
//! Every call into momtrop goes through `catch_unwind` so that a panic is an observable outcome.
use crate::engine::take_panic;
use crate::oracle::graph::G;
use momtrop::float::MomTropFloat;
use momtrop::matrix::{DecompositionResult, MatrixError, SquareMatrix};
use momtrop::vector::Vector;
use momtrop::{SampleGenerator, TropicalSampleResult, TropicalSamplingSettings};
use serde_json::Value;
use std::cell::RefCell;
use std::collections::BTreeMap;
use std::panic::{catch_unwind, AssertUnwindSafe};

#[macro_export]
macro_rules! with_d {
    ($d:expr, $f:ident ( $($args:expr),* )) => {
        match $d {
            1 => $f::<1>($($args),*),
            2 => $f::<2>($($args),*),
            3 => $f::<3>($($args),*),
            4 => $f::<4>($($args),*),
            5 => $f::<5>($($args),*),
            6 => $f::<6>($($args),*),
            d => panic!("dimension {d} outside 1..=6"),
        }
    };
}

#[derive(Debug, Clone)]
pub enum BuildErr {
    Rejected(String),
    Panic(String),
}

pub fn build<const D: usize>(g: &G, sig: Vec<Vec<isize>>) -> Result<SampleGenerator<D>, BuildErr> {
    let graph = g.to_momtrop();
    match catch_unwind(AssertUnwindSafe(|| graph.build_sampler::<D>(sig))) {
        Ok(Ok(s)) => Ok(s),
        Ok(Err(e)) => Err(BuildErr::Rejected(e)),
        Err(_) => Err(BuildErr::Panic(take_panic())),
    }
}

/// trivial signature (one column per loop is irrelevant for table properties)
pub fn dummy_sig(ne: usize, nl: usize) -> Vec<Vec<isize>> {
    vec![vec![0; nl.max(1)]; ne]
}

#[derive(Clone, Debug)]
pub struct TableEntry {
    pub loops: u64,
    pub spanning: bool,
    pub j: f64,
    pub omega: f64,
}
#[derive(Clone, Debug)]
pub struct Table {
    pub entries: Vec<TableEntry>,
    pub dimension: u64,
    pub cached_factor: f64,
    pub dod: f64,
    pub num_loops: u64,
    pub num_massive: u64,
    pub externals: Vec<u64>,
    pub weights: Vec<f64>,
    pub raw: String,
}
fn num(v: &Value) -> f64 {
    v.as_f64().unwrap_or(f64::NAN)
}
/// read the sampler's table through its public serde surface
pub fn table_of<const D: usize>(s: &SampleGenerator<D>) -> Result<Table, String> {
    let raw = serde_json::to_string(s).map_err(|e| format!("serialisation failed: {e}"))?;
    let v: Value = serde_json::from_str(&raw).map_err(|e| format!("{e}"))?;
    let t = &v["table"];
    let arr = t["table"].as_array().ok_or("no table array")?;
    let entries = arr
        .iter()
        .map(|e| TableEntry { loops: e["loop_number"].as_u64().unwrap_or(u64::MAX), spanning: e["mass_momentum_spanning"].as_bool().unwrap_or(false), j: num(&e["j_function"]), omega: num(&e["generalized_dod"]) })
        .collect();
    let tg = &t["tropical_graph"];
    Ok(Table {
        entries,
        dimension: t["dimension"].as_u64().unwrap_or(u64::MAX),
        cached_factor: num(&t["cached_factor"]),
        dod: num(&tg["dod"]),
        num_loops: tg["num_loops"].as_u64().unwrap_or(u64::MAX),
        num_massive: tg["num_massive_edges"].as_u64().unwrap_or(u64::MAX),
        externals: tg["external_vertices"].as_array().map(|a| a.iter().map(|x| x.as_u64().unwrap_or(u64::MAX)).collect()).unwrap_or_default(),
        weights: tg["topology"].as_array().map(|a| a.iter().map(|x| num(&x["weight"])).collect()).unwrap_or_default(),
        raw,
    })
}

// ------------------------------------------------------------------ logging
#[derive(Default)]
pub struct Cap {
    pub vals: RefCell<BTreeMap<String, Vec<f64>>>,
}
impl momtrop::log::Logger for Cap {
    fn write<T: serde::Serialize>(&self, msg: &str, data: &T) {
        let v = serde_json::to_value(data).unwrap_or(Value::Null);
        let out = match v {
            Value::Array(a) => a.iter().map(num).collect(),
            other => vec![num(&other)],
        };
        self.vals.borrow_mut().insert(msg.to_string(), out);
    }
}
pub struct NoLog;
impl momtrop::log::Logger for NoLog {
    fn write<T: serde::Serialize>(&self, _m: &str, _d: &T) {}
}

#[derive(Clone, Debug, Default)]
pub struct Log {
    pub x0: Vec<f64>,
    pub x: Vec<f64>,
    pub ut0: f64,
    pub vt0: f64,
    pub lambda: f64,
    pub u: f64,
    pub v: f64,
    pub complete: bool,
}
impl Cap {
    pub fn to_log(&self) -> Log {
        let m = self.vals.borrow();
        let g1 = |k: &str| m.get(k).and_then(|v| v.first().copied()).unwrap_or(f64::NAN);
        let gv = |k: &str| m.get(k).cloned().unwrap_or_default();
        Log {
            x0: gv("momtrop_feynman_parameter_no_rescaling"),
            x: gv("momtrop_feynman_parameter"),
            ut0: g1("momtrop_u_trop_no_rescaling"),
            vt0: g1("momtrop_v_trop_no_rescaling"),
            lambda: g1("momtrop_lambda"),
            u: g1("momtrop_u"),
            v: g1("momtrop_v"),
            complete: m.contains_key("momtrop_feynman_parameter") && m.contains_key("momtrop_u"),
        }
    }
}

// ------------------------------------------------------------------ sampling
#[derive(Clone, Debug, PartialEq)]
pub enum SutErr {
    ZeroDet,
    Unstable,
    Gamma,
    Panic(String),
}
impl SutErr {
    pub fn is_panic(&self) -> bool {
        matches!(self, SutErr::Panic(_))
    }
}

pub fn settings(stab: Option<f64>, debug: bool, meta: bool) -> TropicalSamplingSettings {
    TropicalSamplingSettings { matrix_stability_test: stab, print_debug_info: debug, return_metadata: meta }
}

/// generic sample call with panic capture
pub fn sample_t<T: MomTropFloat, const D: usize, L: momtrop::log::Logger>(
    s: &SampleGenerator<D>,
    x: &[T],
    ed: Vec<(Option<T>, Vector<T, D>)>,
    st: &TropicalSamplingSettings,
    logger: &L,
) -> Result<TropicalSampleResult<T, D>, SutErr> {
    match catch_unwind(AssertUnwindSafe(|| s.generate_sample_from_x_space_point(x, ed, st, logger))) {
        Ok(Ok(r)) => Ok(r),
        Ok(Err(momtrop_err)) => Err(classify(&format!("{momtrop_err:?}"))),
        Err(_) => Err(SutErr::Panic(take_panic())),
    }
}
/// SamplingError lives in a private module; classify through its Debug text
pub fn classify(dbg: &str) -> SutErr {
    if dbg.contains("ZeroDet") {
        SutErr::ZeroDet
    } else if dbg.contains("Unstable") {
        SutErr::Unstable
    } else {
        SutErr::Gamma
    }
}

pub type Mat = Vec<Vec<f64>>;
pub fn mat_of<T: MomTropFloat>(m: &SquareMatrix<T>, f: &impl Fn(&T) -> f64) -> Mat {
    let n = m.get_dim();
    (0..n).map(|i| (0..n).map(|j| f(&m[(i, j)])).collect()).collect()
}
pub fn vecs_of<T: MomTropFloat, const D: usize>(v: &[Vector<T, D>], f: &impl Fn(&T) -> f64) -> Vec<Vec<f64>> {
    v.iter().map(|k| (0..D).map(|i| f(&k[i])).collect()).collect()
}

#[derive(Clone, Debug)]
pub struct Decomp {
    pub det: f64,
    pub inv: Mat,
    pub qt: Mat,
    pub qti: Mat,
}
pub fn decomp_of(d: &DecompositionResult<f64>) -> Decomp {
    let id = |x: &f64| *x;
    Decomp { det: d.determinant, inv: mat_of(&d.inverse, &id), qt: mat_of(&d.q_transposed, &id), qti: mat_of(&d.q_transposed_inverse, &id) }
}
#[derive(Clone, Debug)]
pub struct Meta {
    pub q: Vec<Vec<f64>>,
    pub lambda: f64,
    pub l: Mat,
    pub dec: Decomp,
    pub uvec: Vec<Vec<f64>>,
    pub shift: Vec<Vec<f64>>,
}
#[derive(Clone, Debug)]
pub struct Out {
    pub k: Vec<Vec<f64>>,
    pub u_trop: f64,
    pub v_trop: f64,
    pub u: f64,
    pub v: f64,
    pub jac: f64,
    pub meta: Option<Meta>,
    pub log: Option<Log>,
}
impl Out {
    /// all bit patterns of the numerical result (for purity comparisons)
    pub fn bits(&self) -> Vec<u64> {
        let mut b = vec![self.u_trop.to_bits(), self.v_trop.to_bits(), self.u.to_bits(), self.v.to_bits(), self.jac.to_bits()];
        for k in &self.k {
            for c in k {
                b.push(c.to_bits());
            }
        }
        b
    }
    pub fn all_finite(&self) -> bool {
        self.u.is_finite() && self.v.is_finite() && self.jac.is_finite() && self.k.iter().flatten().all(|c| c.is_finite())
    }
}
pub fn out_of<const D: usize>(r: &TropicalSampleResult<f64, D>, log: Option<Log>) -> Out {
    let id = |x: &f64| *x;
    Out {
        k: vecs_of(&r.loop_momenta, &id),
        u_trop: r.u_trop,
        v_trop: r.v_trop,
        u: r.u,
        v: r.v,
        jac: r.jacobian,
        meta: r.metadata.as_ref().map(|m| Meta { q: vecs_of(&m.q_vectors, &id), lambda: m.lambda, l: mat_of(&m.l_matrix, &id), dec: decomp_of(&m.decompoisiton_result), uvec: vecs_of(&m.u_vectors, &id), shift: vecs_of(&m.shift, &id) }),
        log,
    }
}

pub fn edge_data<const D: usize>(massive: &[bool], masses: &[f64], shifts: &[Vec<f64>]) -> Vec<(Option<f64>, Vector<f64, D>)> {
    (0..massive.len()).map(|e| (if massive[e] { Some(masses[e]) } else { None }, Vector::from_array(std::array::from_fn(|i| shifts[e][i])))).collect()
}

/// f64 sample with metadata and (optionally) the debug log captured
pub fn sample_f64<const D: usize>(s: &SampleGenerator<D>, x: &[f64], ed: Vec<(Option<f64>, Vector<f64, D>)>, stab: Option<f64>, debug: bool, meta: bool) -> Result<Out, SutErr> {
    let st = settings(stab, debug, meta);
    if debug {
        let cap = Cap::default();
        let r = sample_t(s, x, ed, &st, &cap)?;
        Ok(out_of(&r, Some(cap.to_log())))
    } else {
        let r = sample_t(s, x, ed, &st, &NoLog)?;
        Ok(out_of(&r, None))
    }
}

/// decompose an f64 matrix with panic capture
pub fn decompose(a: &Mat, stab: Option<f64>) -> Result<Decomp, SutErr> {
    decompose_dbg(a, stab, false)
}
/// the same with print_debug_info chosen by the caller (the routine prints to stdout, which the harness silences)
pub fn decompose_dbg(a: &Mat, stab: Option<f64>, debug: bool) -> Result<Decomp, SutErr> {
    let n = a.len();
    let mut m = SquareMatrix::new_zeros_from_num(&0.0f64, n);
    for i in 0..n {
        for j in 0..n {
            m[(i, j)] = a[i][j];
        }
    }
    let st = settings(stab, debug, false);
    match catch_unwind(AssertUnwindSafe(|| m.decompose_for_tropical(&st))) {
        Ok(Ok(d)) => Ok(decomp_of(&d)),
        Ok(Err(MatrixError::ZeroDet)) => Err(SutErr::ZeroDet),
        Ok(Err(MatrixError::Unstable)) => Err(SutErr::Unstable),
        Err(_) => Err(SutErr::Panic(take_panic())),
    }
}
