//! Purity of sampling in the build of momtrop that has no `log` feature (debug output goes through println!).
//! stdin: JSON list of items (graph, routing, kinematics, points). argv[1]: report file.
//! For every item: all combinations of return_metadata x print_debug_info x stability{None,Some(1e300)} must give
//! bit-identical numbers; generate_sample_from_rng must equal the x-space call on the first get_dimension() numbers
//! of the same stream and leave the generator in that state. The report also carries the reference bits
//! (flags off) so that the parent can compare the two builds.
use momtrop::vector::Vector;
use momtrop::{Edge, Graph, SampleGenerator, TropicalSamplingSettings};
use rand::{Rng, RngCore, SeedableRng};
use serde::{Deserialize, Serialize};
use std::panic::{catch_unwind, AssertUnwindSafe};

#[derive(Deserialize)]
struct G {
    edges: Vec<(u8, u8)>,
    massive: Vec<bool>,
    weights: Vec<f64>,
    externals: Vec<u8>,
    d: usize,
}
#[derive(Deserialize)]
struct Kin {
    sig: Vec<Vec<isize>>,
    shifts: Vec<Vec<f64>>,
    masses: Vec<f64>,
}
#[derive(Deserialize)]
struct Phys {
    g: G,
    kin: Kin,
}
#[derive(Deserialize)]
struct Item {
    p: Phys,
    points: Vec<Vec<f64>>,
    #[serde(default)]
    seeds: Vec<u64>,
}
#[derive(Serialize, Default)]
struct Report {
    /// per item, per point: bits with all flags off, stability None
    reference: Vec<Vec<Vec<u64>>>,
    violations: Vec<String>,
    samples: usize,
}

fn edge_data<const D: usize>(p: &Phys) -> Vec<(Option<f64>, Vector<f64, D>)> {
    (0..p.g.edges.len()).map(|e| (if p.g.massive[e] { Some(p.kin.masses[e]) } else { None }, Vector::from_array(std::array::from_fn(|i| p.kin.shifts[e][i])))).collect()
}
fn bits<const D: usize>(s: &SampleGenerator<D>, p: &Phys, x: &[f64], meta: bool, debug: bool, stab: Option<f64>) -> Vec<u64> {
    let st = TropicalSamplingSettings { matrix_stability_test: stab, print_debug_info: debug, return_metadata: meta };
    match catch_unwind(AssertUnwindSafe(|| s.generate_sample_from_x_space_point(x, edge_data::<D>(p), &st))) {
        Ok(Ok(r)) => {
            let mut b = vec![r.u_trop.to_bits(), r.v_trop.to_bits(), r.u.to_bits(), r.v.to_bits(), r.jacobian.to_bits()];
            for k in &r.loop_momenta {
                for i in 0..D {
                    b.push(k[i].to_bits());
                }
            }
            b
        }
        Ok(Err(e)) => {
            let d = format!("{e:?}");
            vec![if d.contains("ZeroDet") { 0xE001 } else if d.contains("Unstable") { 0xE002 } else { 0xE003 }]
        }
        Err(_) => vec![0xE004],
    }
}
fn run<const D: usize>(it: &Item, rep: &mut Report, idx: usize) {
    let p = &it.p;
    let graph = Graph { edges: (0..p.g.edges.len()).map(|e| Edge { vertices: p.g.edges[e], is_massive: p.g.massive[e], weight: p.g.weights[e] }).collect(), externals: p.g.externals.clone() };
    let s = match catch_unwind(AssertUnwindSafe(|| graph.build_sampler::<D>(p.kin.sig.clone()))) {
        Ok(Ok(s)) => s,
        _ => {
            rep.reference.push(vec![vec![0xEEEE]]);
            return;
        }
    };
    let dim = s.get_dimension();
    let mut refs = vec![];
    for (pi, x) in it.points.iter().enumerate() {
        for stab in [None, Some(1e300)] {
            let base = bits::<D>(&s, p, x, false, false, stab);
            if stab.is_none() {
                refs.push(base.clone());
            }
            for meta in [false, true] {
                for debug in [false, true] {
                    let got = bits::<D>(&s, p, x, meta, debug, stab);
                    rep.samples += 1;
                    if got != base {
                        rep.violations.push(format!("item {idx} point {pi}: return_metadata={meta} print_debug_info={debug} stability={stab:?} changes the numerical result in the build without the log feature"));
                    }
                }
            }
        }
    }
    for &seed in &it.seeds {
        for debug in [false, true] {
            let mut rng = rand::rngs::StdRng::seed_from_u64(seed);
            let mut twin = rng.clone();
            let x: Vec<f64> = (0..dim).map(|_| twin.gen::<f64>()).collect();
            let st = TropicalSamplingSettings { matrix_stability_test: None, print_debug_info: debug, return_metadata: false };
            let via_rng = match catch_unwind(AssertUnwindSafe(|| s.generate_sample_from_rng(edge_data::<D>(p), &st, &mut rng))) {
                Ok(Ok(r)) => {
                    let mut b = vec![r.u_trop.to_bits(), r.v_trop.to_bits(), r.u.to_bits(), r.v.to_bits(), r.jacobian.to_bits()];
                    for k in &r.loop_momenta {
                        for i in 0..D {
                            b.push(k[i].to_bits());
                        }
                    }
                    b
                }
                Ok(Err(e)) => {
                    let d = format!("{e:?}");
                    vec![if d.contains("ZeroDet") { 0xE001 } else if d.contains("Unstable") { 0xE002 } else { 0xE003 }]
                }
                Err(_) => vec![0xE004],
            };
            let via_x = bits::<D>(&s, p, &x, false, debug, None);
            rep.samples += 1;
            if via_rng != via_x {
                rep.violations.push(format!("item {idx} seed {seed}: generate_sample_from_rng differs from the x-space call on the same numbers (no-log build, debug={debug})"));
            }
            if rng.next_u64() != twin.next_u64() {
                rep.violations.push(format!("item {idx} seed {seed}: generate_sample_from_rng did not draw exactly get_dimension()={dim} numbers (no-log build)"));
            }
        }
    }
    rep.reference.push(refs);
}

fn main() {
    std::panic::set_hook(Box::new(|_| {}));
    let out = std::env::args().nth(1).expect("report file");
    let mut input = String::new();
    use std::io::Read;
    std::io::stdin().read_to_string(&mut input).expect("stdin");
    let items: Vec<Item> = serde_json::from_str(&input).expect("items");
    let mut rep = Report::default();
    for (i, it) in items.iter().enumerate() {
        match it.p.g.d {
            1 => run::<1>(it, &mut rep, i),
            2 => run::<2>(it, &mut rep, i),
            3 => run::<3>(it, &mut rep, i),
            4 => run::<4>(it, &mut rep, i),
            5 => run::<5>(it, &mut rep, i),
            6 => run::<6>(it, &mut rep, i),
            _ => rep.reference.push(vec![vec![0xEEEE]]),
        }
    }
    std::fs::write(out, serde_json::to_string(&rep).unwrap()).expect("write report");
}
